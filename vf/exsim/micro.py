"""Directed micro-scenarios run through the same machinery and monitors as the random backtests.

* micro_c04: one order, one decisive bar whose O/H/L/C and the order's limit / stop prices realise
  one weak ordering of those six values (all 4 order kinds x 2 sides); infinite liquidity and ample
  funds, so the completeness clauses of C04 apply. The thorough tier enumerates every weak ordering
  compatible with a valid bar.
* micro_c06: boundary acceptance - the same request is replayed with exactly the reservation
  available (must be accepted) and with one precision unit less (must be rejected).
* micro_c10: borrowing at the margin boundary (largest grantable amount +- one unit), empty and
  zero-equity accounts, several borrowed symbols, prices moving between loans.
"""
from __future__ import annotations

import collections
import copy
import functools
import itertools
from decimal import Decimal as D
from typing import Any, Dict, List, Tuple

from vf import common
from vf.common import ShardResult, Violation
from vf.exsim import gen
from vf.exsim.gen import q, unit, _s

ITEMS = ["open", "high", "low", "close", "limit", "stop"]


@functools.lru_cache(maxsize=None)
def weak_orderings() -> List[Tuple[int, ...]]:
    """All weak orderings of the six prices (as rank tuples) that form a valid bar."""
    out = []
    for ranks in itertools.product(range(6), repeat=6):
        k = max(ranks) + 1
        if set(ranks) != set(range(k)):
            continue
        o, h, low, c, lim, st = ranks
        if low <= o <= h and low <= c <= h:
            out.append(ranks)
    return out


def c04_space_size() -> int:
    return len(weak_orderings()) * 8


def micro_c04_scenario(index: int, r) -> Dict[str, Any]:
    wo = weak_orderings()
    ranks = wo[(index // 8) % len(wo)]
    kind = ["market", "limit", "stop", "stop_limit"][index % 4]
    side = ["buy", "sell"][(index // 4) % 2]
    bp, qp = r.choice([(0, 2), (2, 2), (8, 2), (3, 0), (4, 5)])
    base = D(r.choice([5, 50, 1000]))
    step = max(q(base * D("0.07"), qp), unit(qp))
    px = {name: base + step * rk for name, rk in zip(ITEMS, ranks)}
    pre = r.choice([px["open"], base + step * r.randint(0, 5)])       # last close before the decisive bar
    amount = max(q(D(r.choice(["1", "3", "0.5", "12.345678"])), bp), unit(bp))
    order = {"op": "order", "kind": kind, "side": side, "pair": "BTC/USD", "amount": _s(amount),
             "auto_borrow": False, "auto_repay": False}
    if kind in ("limit", "stop_limit"):
        order["limit"] = _s(px["limit"])
    if kind in ("stop", "stop_limit"):
        order["stop"] = _s(px["stop"])
    tail = gen.gen_bars(r, r.randint(0, 2), qp, px["close"], [D(1000)], t0=2, step_choices=(1,))
    if r.random() < 0.25 and px["high"] - px["low"] >= unit(qp):
        # feeds quote finer than the pair's price grid: the decisive bar stops a fraction of a tick short of the
        # prices it ties with in this ordering (a limit or stop equal to the bar's extreme is then *not* reached)
        d = unit(qp) * D(r.choice(["0.4", "0.25", "0.49"]))
        px = dict(px, high=px["high"] - d, low=px["low"] + d)
        px["open"] = min(max(px["open"], px["low"]), px["high"])
        px["close"] = min(max(px["close"], px["low"]), px["high"])
    bars = [[1, _s(pre), _s(pre), _s(pre), _s(pre), "1000"],
            [2, _s(px["open"]), _s(px["high"]), _s(px["low"]), _s(px["close"]), "1000"]] + tail
    fee = None if r.random() < 0.6 else {"pct": r.choice(["0.1", "1.5"]), "min": r.choice(["0", "0.01"])}
    base_fee = r.choice(["0.1", "1"]) if fee is None and r.random() < 0.25 else None
    bars2 = gen.second_feed({"BTC/USD": bars}, "BTC/USD") if r.random() < 0.2 else None
    return {"class": "micro_c04", "base_fee_pct": base_fee, "bars2": bars2, "symbols": {"BTC": bp, "USD": qp}, "pairs": [["BTC", "USD"]],
            "explicit_pair_info": [0] if r.random() < 0.5 else [], "fee": fee, "liq": None, "lend": None,
            "max_concurrent": r.choice([1, 50]), "bars": {"BTC/USD": bars},
            "init": {"USD": "1000000000", "BTC": "1000000"}, "actions": {"BTC/USD@1": [order]},
            "on_order_event": [], "jobs": [], "ranks": list(ranks), "micro_index": index}


def micro_c04b_scenario(r) -> Dict[str, Any]:
    """One order, two or three decisive bars, a volume-share liquidity model with price impact: the order takes a
    large share of a bar's liquidity, so the slipped price moves towards (or past) the limit / the bar's range; a
    stop may be reached in one bar and the limit only in a later one that opens beyond it."""
    wo = weak_orderings()
    kind = r.choice(["limit", "stop", "stop_limit", "stop_limit", "market"])
    side = r.choice(["buy", "sell"])
    bp, qp = r.choice([(0, 2), (2, 2), (8, 2), (4, 5)])
    base = D(r.choice([5, 50, 1000]))
    step = max(q(base * D(r.choice(["0.02", "0.07"])), qp), unit(qp))
    limit_pct = D(r.choice([25, 50, 100]))
    impact = r.choice(["5", "10", "50"])
    share = D(r.choice(["0.1", "0.5", "0.9", "1", "1.5"]))
    vol = D(r.choice([40, 400, 1000]))
    amount = max(q(vol * limit_pct / 100 * share, bp), unit(bp))
    bars = [[1, _s(base), _s(base), _s(base), _s(base), _s(vol)]]
    px = {}
    for t in range(2, 2 + r.choice([2, 2, 3])):
        ranks = wo[r.randrange(len(wo))]
        off = r.randint(-2, 2)
        vals = {name: max(base + step * (rk + off), unit(qp)) for name, rk in zip(ITEMS, ranks)}
        if t == 2:
            px = vals                       # limit and stop are placed relative to the first decisive bar
        lo_, hi_ = min(vals["low"], vals["open"], vals["close"]), max(vals["high"], vals["open"], vals["close"])
        bars.append([t, _s(vals["open"]), _s(hi_), _s(lo_), _s(vals["close"]), _s(vol * D(r.choice(["1", "1", "0.5", "3"])))])
    order = {"op": "order", "kind": kind, "side": side, "pair": "BTC/USD", "amount": _s(amount),
             "auto_borrow": False, "auto_repay": False}
    if kind in ("limit", "stop_limit"):
        order["limit"] = _s(px["limit"])
    if kind in ("stop", "stop_limit"):
        order["stop"] = _s(px["stop"])
    fee = None if r.random() < 0.7 else {"pct": r.choice(["0.1", "1.5"]), "min": "0"}
    return {"class": "micro_c04b", "symbols": {"BTC": bp, "USD": qp}, "pairs": [["BTC", "USD"]], "explicit_pair_info": [],
            "fee": fee, "liq": {"limit": _s(limit_pct), "impact": impact}, "lend": None, "max_concurrent": 50,
            "bars": {"BTC/USD": bars}, "init": {"USD": "1000000000", "BTC": "1000000"},
            "actions": {"BTC/USD@1": [order]}, "on_order_event": [], "jobs": []}


def micro_c04c_scenario(r) -> Dict[str, Any]:
    """Long quiet histories of two or three pairs with orders resting far from the market, placed at scattered
    times, and one final bar per pair whose range reaches every limit and stop: with unlimited liquidity and ample
    funds each resting order must be filled completely by that bar, however long it has been waiting and whatever
    happened to the exchange's list of open orders in between."""
    names = ["BTC", "ETH", "LTC"][:r.choice([2, 2, 3])]
    symbols = {n: r.choice([2, 4]) for n in names}
    symbols["USD"] = 2
    n = r.randint(26, 80)
    bars, actions = {}, {}
    for k, b in enumerate(names):
        p = D(r.choice([40, 300, 5000]))
        rows = []
        for t in range(1, n):
            o = q(p * D(str(round(r.uniform(0.99, 1.01), 4))), 2)
            c = q(p * D(str(round(r.uniform(0.99, 1.01), 4))), 2)
            rows.append([t, _s(o), _s(max(o, c) + D("0.01")), _s(min(o, c) - D("0.01")), _s(c), "1000"])
        rows.append([n, _s(p), _s(q(p * D("2.5"), 2)), _s(q(p * D("0.4"), 2)), _s(p), "1000"])
        if r.random() < 0.5:
            rows.append([n + 1, _s(p), _s(p), _s(p), _s(p), "1000"])
        bars[f"{b}/USD"] = rows
        for _ in range(r.randint(1, 4)):
            t = r.randint(1, n - 2)
            # market and stop orders never rest (fill-or-kill on their first bar): only limit and stop-limit orders wait
            kind, side = r.choice([("limit", "buy"), ("limit", "sell"), ("limit", "buy"), ("stop_limit", "buy"), ("stop_limit", "sell")])
            far_low, far_high = _s(q(p * D("0.5"), 2)), _s(q(p * D("2"), 2))
            o_ = {"op": "order", "kind": kind, "side": side, "pair": f"{b}/USD", "auto_borrow": False, "auto_repay": False,
                  "amount": _s(max(q(D(r.choice(["1", "0.5", "3"])), symbols[b]), unit(symbols[b])))}
            if kind == "limit":
                o_["limit"] = far_low if side == "buy" else far_high
            elif kind == "stop":
                o_["stop"] = far_high if side == "buy" else far_low
            elif side == "buy":
                o_["stop"], o_["limit"] = far_high, _s(q(p * D("2.4"), 2))
            else:
                o_["stop"], o_["limit"] = far_low, _s(q(p * D("0.42"), 2))
            # the request may come from the handler of another pair's bar
            src = r.choice(names)
            actions.setdefault(f"{src}/USD@{t}", []).append(o_)
    init = {"USD": "1000000000"}
    init.update({b: "1000000" for b in names})
    return {"class": "micro_c04c", "symbols": symbols, "pairs": [[b, "USD"] for b in names], "explicit_pair_info": [],
            "fee": None, "liq": None, "lend": None, "max_concurrent": r.choice([1, 50]), "bars": bars, "init": init,
            "actions": actions, "on_order_event": [], "jobs": []}


def micro_c06_scenario(r) -> Dict[str, Any]:
    bp, qp = r.choice([(0, 2), (2, 2), (8, 2), (3, 0), (4, 5), (8, 8), (0, 0)])
    base = D(r.choice(["0.5", "7", "50", "1000", "23456.78"]))
    last = max(q(base, qp), unit(qp))
    kind = r.choice(["market", "limit", "stop", "stop_limit"])
    side = r.choice(["buy", "sell"])
    amount = max(q(D(r.choice(["1", "3", "0.5", "12.345678", "0.00012", "250"])), bp), unit(bp))
    # auto_borrow may be requested although nothing can be lent (no lending strategy): with the reservation available
    # nothing needs to be borrowed, so the boundary is the same
    order = {"op": "order", "kind": kind, "side": side, "pair": "BTC/USD", "amount": _s(amount),
             "auto_borrow": r.random() < 0.3, "auto_repay": False}
    if kind in ("limit", "stop_limit"):
        order["limit"] = _s(max(q(last * D(r.choice(["0.9", "1", "1.1", "3"])), qp), unit(qp)))
    if kind in ("stop", "stop_limit"):
        order["stop"] = _s(max(q(last * D(r.choice(["0.9", "1", "1.1", "0.3"])), qp), unit(qp)))
    fee = None if r.random() < 0.3 else {"pct": r.choice(["0", "0.1", "0.25", "1.5", "33.333333"]),
                                         "min": r.choice(["0", "0.01", "0.013", "5", "250", "1000000"])}
    with_price = r.random() < 0.85     # market orders before any bar have no estimate
    bars = [[1, _s(last), _s(last), _s(last), _s(last), "1000"], [2, _s(last), _s(last), _s(last), _s(last), "1000"],
            [3, _s(last), _s(last), _s(last), _s(last), "1000"]]
    return {"class": "micro_c06", "symbols": {"BTC": bp, "USD": qp, "ETH": 2},
            "pairs": [["BTC", "USD"], ["ETH", "USD"]],
            "explicit_pair_info": [], "fee": fee, "liq": None, "lend": None, "max_concurrent": 50,
            # the order is placed from the ETH/USD handler at t=1: if BTC/USD has no bar before t=2 there is no price
            "bars": {"BTC/USD": bars if with_price else bars[1:], "ETH/USD": [[1, "10", "10", "10", "10", "5"]]},
            "init": {"USD": "1000000000000", "BTC": "1000000000"},
            "actions": {"ETH/USD@1": [order]}, "on_order_event": [], "jobs": []}


def micro_c10_scenario(r) -> Dict[str, Any]:
    sc = gen.gen_scenario(r, "margin")
    sc["class"] = "micro_c10"
    # make the requirement bite and add boundary loans at several points of the price path
    for c in [sc["lend"]["default"]] + list(sc["lend"]["per_symbol"].values()):
        if c is not None and r.random() < 0.8:
            c["req"] = r.choice(["0.1", "0.25", "0.5", "1", "2"])
    if sc["lend"]["default"] is None:
        sc["lend"]["default"] = gen._cond(r, sc["symbols"], "USD")
    kind = r.choice(["empty", "zero_equity", "funded", "funded"])
    if kind == "empty":
        sc["init"] = {k: "0" for k in sc["init"]}
    syms = list(sc["symbols"])
    for key in list(sc["actions"])[:: max(1, len(sc["actions"]) // 6)]:
        sym = r.choice(syms)
        sc["actions"][key].insert(0, {"op": "loan", "symbol": sym, "amount": _s(D(r.randint(1, 9))), "boundary": True})
    sc["reuse_strategy"] = r.random() < 0.35
    if not sc["reuse_strategy"] and r.random() < 0.5:
        # requirement of a symbol raised (or lowered) half-way through, after it already took part in margin checks
        keys = sorted(sc["actions"], key=lambda k: int(k.split("@")[1]))
        if len(keys) >= 4:
            sym = r.choice(syms)
            base_c = dict(sc["lend"]["per_symbol"].get(sym) or sc["lend"]["default"])
            base_c["req"] = r.choice(["2", "1", "0.5", "0.1"])
            k = keys[len(keys) // 2]
            sc["actions"][k].insert(0, {"op": "set_cond", "symbol": sym, "cond": base_c})
            for kk in keys[len(keys) // 2:]:
                sc["actions"][kk].insert(1, {"op": "loan", "symbol": sym, "amount": _s(D(r.randint(1, 9))), "boundary": True})
    if r.random() < 0.35:
        # a scheduled job borrows at exactly the time of a bar (jobs run before that instant's events: the valuation
        # uses the previous close), then the handler of that bar borrows again at the same instant, after the price moved
        for key in list(sc["actions"])[:: max(1, len(sc["actions"]) // 4)]:
            if any(a.get("boundary") for a in sc["actions"][key]):
                sc["jobs"].append({"t": int(key.split("@")[1]), "half": False,
                                   "action": {"op": "loan", "symbol": r.choice(syms), "amount": "1", "boundary": False}})
    if "BTC" in sc["symbols"] and ["USD", "BTC"] not in sc["pairs"] and r.random() < 0.2:
        # the market is also quoted the other way round (USD/BTC) by a feed that stops early at a different price: the
        # direct pair is the one conversions use
        bl = sc["bars"].get("BTC/USD")
        if bl:
            bp_ = sc["symbols"]["BTC"]
            rows = []
            for row in bl[:2]:
                px = max(q(D(1) / (D(row[4]) * 2), bp_), unit(bp_))
                rows.append([row[0], _s(px), _s(px), _s(px), _s(px), "1000"])
            sc["pairs"].append(["USD", "BTC"])
            sc["bars"]["USD/BTC"] = rows
    if kind == "zero_equity":
        # first action: borrow, so that the only asset equals the debt; then try to borrow much more
        first = sorted(sc["actions"], key=lambda k: int(k.split("@")[1]))[:1]
        sc["init"] = {k: "0" for k in sc["init"]}
        for key in first:
            sc["actions"][key].insert(0, {"op": "loan", "symbol": "USD", "amount": "1000000", "boundary": False})
    return sc


def micro_c08_hold_raid(r) -> Dict[str, Any]:
    """All the money is reserved by two buy orders; the price gaps up just enough that the first (all-or-nothing) one
    costs more than its own reservation but less than what both orders hold together. It has to be refused: the
    difference is reserved for the other order, which rests below the market."""
    bp, qp = r.choice([(0, 2), (2, 2), (3, 2), (8, 2)])
    p0 = D(r.choice([50, 400, 1000]))
    gap = D(r.choice(["1.05", "1.2", "1.5"]))
    a = max(q(D(r.choice([2, 10, 40])), bp), unit(bp))
    b = max(q(a * (gap - 1) * D(r.choice(["1.3", "2", "5"])), bp), unit(bp))
    rest = max(q(p0 * D(r.choice(["0.9", "0.5"])), qp), unit(qp))
    p1 = max(q(p0 * gap, qp), unit(qp))
    usd = q(a * p0 + b * rest, qp) + unit(qp) * r.choice([0, 1, 3])
    vol = (a + b) * 100
    first = {"op": "order", "kind": r.choice(["market", "stop"]), "side": "buy", "pair": "BTC/USD", "amount": _s(a),
             "stop": _s(p0), "auto_borrow": False, "auto_repay": False}
    resting = {"op": "order", "kind": "limit", "side": "buy", "pair": "BTC/USD", "amount": _s(b), "limit": _s(rest),
               "auto_borrow": False, "auto_repay": False}
    orders = [first, resting] if r.random() < 0.5 else [resting, first]
    bars = [[1, _s(p0), _s(p0), _s(p0), _s(p0), _s(vol)], [2, _s(p1), _s(p1), _s(p1), _s(p1), _s(vol)],
            [3, _s(p1), _s(p1), _s(p1), _s(p1), _s(vol)]]
    return {"class": "micro_c08", "symbols": {"BTC": bp, "USD": qp}, "pairs": [["BTC", "USD"]], "explicit_pair_info": [],
            "base_fee_pct": None, "early_lookup": False, "fee": None,
            "liq": r.choice([None, {"limit": "100", "impact": "0"}]), "lend": None, "max_concurrent": 50,
            "bars": {"BTC/USD": bars}, "init": {"USD": _s(usd), "BTC": "0"},
            "actions": {"BTC/USD@1": orders, "BTC/USD@2": [{"op": "cancel", "among": "open", "pick": 0}, {"op": "query"}]},
            "on_order_event": [], "jobs": []}


def micro_c08_scenario(r) -> Dict[str, Any]:
    """Orders competing for one bar's liquidity and for the same funds: an earlier all-or-nothing order that fits the
    liquidity but cannot be paid after a price gap, followed by orders that fit what is (or should be) left."""
    if r.random() < 0.3:
        return micro_c08_hold_raid(r)
    bp, qp = r.choice([(0, 2), (2, 2), (3, 0), (8, 2)])
    p0 = D(r.choice([5, 50, 400]))
    gap = D(r.choice(["2", "3", "0.4", "1"]))
    limit_pct = D(r.choice([25, 50, 100]))
    big = max(q(D(r.choice([40, 90, 150])), bp), unit(bp))
    small = max(q(big * D(r.choice(["0.1", "0.2", "0.5"])), bp), unit(bp))
    side = r.choice(["buy", "buy", "sell"])
    L = big + small * D(r.choice(["0.5", "0.9", "1", "2"]))           # liquidity of the decisive bar
    vol = L * 100 / limit_pct
    usd = q((big + small) * p0 * D(r.choice(["1.02", "1.1", "1.5", "4"])), qp)
    p1 = max(q(p0 * gap, qp), unit(qp))
    bars = [[1, _s(p0), _s(p0), _s(p0), _s(p0), _s(vol)], [2, _s(p1), _s(p1), _s(p1), _s(p1), _s(vol)],
            [3, _s(p1), _s(p1), _s(p1), _s(p1), _s(vol)]]
    if r.random() < 0.2:
        bars[1][5] = "0"          # no liquidity at all in the first bar after the requests
        bars[2][5] = _s(vol * 10)
    orders = []
    for amt in ([big, small] if r.random() < 0.7 else [small, big, small]):
        orders.append({"op": "order", "kind": r.choice(["market", "market", "stop"]), "side": side, "pair": "BTC/USD",
                       "amount": _s(amt), "stop": _s(p0 if side == "buy" else p1), "auto_borrow": False, "auto_repay": False})
    fee = None if r.random() < 0.5 else {"pct": r.choice(["0.1", "1"]), "min": "0"}
    base_fee = None
    if side == "buy" and r.random() < 0.35:
        fee, base_fee = None, r.choice(["1", "0.5", "10"])      # commission charged in the received (base) asset
        for o in orders:
            if r.random() < 0.6:
                # marketable limit orders may fill partially: every unit of liquidity is contended
                o["kind"] = "limit"
                o["limit"] = _s(max(q(max(p0, p1) * D("1.5"), qp), unit(qp)))
    return {"class": "micro_c08", "symbols": {"BTC": bp, "USD": qp}, "pairs": [["BTC", "USD"]], "explicit_pair_info": [],
            "base_fee_pct": base_fee, "early_lookup": r.random() < 0.3,
            "fee": fee, "liq": {"limit": _s(limit_pct), "impact": r.choice(["0", "10"])}, "lend": None,
            "max_concurrent": 50, "bars": {"BTC/USD": bars},
            "init": {"USD": _s(usd), "BTC": _s(big + small * 2) if side == "sell" else "0"},
            "actions": {"BTC/USD@1": orders}, "on_order_event": [], "jobs": []}


def micro_c07_rollback_near_limit(r) -> Dict[str, Any]:
    """An account close to its margin limit (its only asset is ETH, most of the margin is used by an ETH loan) sends a
    small short sale of BTC with auto-borrow that needs two loans - BTC to sell, and USD because the minimum fee exceeds
    the proceeds: the first fits, the second is refused, the request is rejected and the first loan has to be given
    back - whatever the margin level says at that moment."""
    k = D(r.choice([1, 10, 100]))
    px = D(1000)
    flat = lambda t: [t, _s(px), _s(px), _s(px), _s(px), "1000"]  # noqa: E731
    cond = {"interest_symbol": "USD", "pct": "10", "period_s": 365 * 86400, "min": _s(q(k, 2)), "req": "0.5"}
    sell = {"op": "order", "kind": r.choice(["limit", "market"]), "side": "sell", "pair": "BTC/USD", "amount": _s(q(k / 1000, 5)),
            "limit": _s(px), "auto_borrow": True, "auto_repay": False}
    return {"class": "micro_c07", "symbols": {"BTC": 5, "ETH": 5, "USD": 2}, "pairs": [["BTC", "USD"], ["ETH", "USD"]],
            "explicit_pair_info": [], "early_lookup": False, "fee": {"pct": "0.25", "min": _s(5 * k)}, "liq": None,
            "lend": {"quote": "USD", "default": cond, "per_symbol": {}}, "max_concurrent": 50,
            "bars": {"BTC/USD": [flat(t) for t in range(1, 6)], "ETH/USD": [flat(t) for t in range(1, 6)]},
            "init": {"ETH": _s(q(D("0.09675") * k, 5)), "BTC": "0", "USD": "0"},
            "actions": {"BTC/USD@1": [{"op": "loan", "symbol": "ETH", "amount": _s(q(D("0.19") * k, 5)), "boundary": False},
                                      sell, {"op": "query"}],
                        "BTC/USD@2": [dict(sell), {"op": "query"}]},
            "on_order_event": [], "jobs": []}


def micro_c07_blocked_repayment(r) -> Dict[str, Any]:
    """An auto-repay order closes (cancelled after a partial fill, or completed) while the loan it should repay can
    only be paid by dipping into funds another open order has on hold: the repayment is skipped, the closing request
    itself succeeds, and nothing else changes."""
    p0 = D(r.choice([100, 1000]))
    up = max(q(p0 * D(r.choice(["1.2", "1.5"])), 2), unit(2))
    frac = D(r.choice(["0.6", "0.8", "0.9"]))
    amt = D(r.choice(["2", "4"]))
    part = amt / 2
    flat = lambda t, px, vol: [t, _s(px), _s(px), _s(px), _s(px), _s(vol)]  # noqa: E731
    bars = [flat(1, p0, 1000), flat(2, p0, 1000), flat(3, up, part * 4), flat(4, up, 1000 if r.random() < 0.5 else 0),
            flat(5, up, 1000)]
    cond = {"interest_symbol": "USD", "pct": r.choice(["0", "10", "40"]), "period_s": r.choice([0, 365 * 86400]),
            "min": r.choice(["0", "0.01"]), "req": r.choice(["0.25", "0.5"])}
    closing = [{"op": "order", "kind": "limit", "side": "buy", "pair": "BTC/USD", "amount": _s(part), "limit": _s(q(p0 * frac, 2)),
                "auto_borrow": False, "auto_repay": False}]
    if r.random() < 0.7:
        closing.append({"op": "cancel", "among": "open", "pick": 0})
    actions = {
        "BTC/USD@1": [{"op": "order", "kind": r.choice(["market", "limit"]), "side": "buy", "pair": "BTC/USD", "amount": _s(amt),
                       "limit": _s(p0), "auto_borrow": True, "auto_repay": False}],
        "BTC/USD@2": [{"op": "order", "kind": "limit", "side": "sell", "pair": "BTC/USD", "amount": _s(amt), "limit": _s(up),
                       "auto_borrow": False, "auto_repay": True}],
        "BTC/USD@3": closing,
        "BTC/USD@4": [{"op": "query"}],
    }
    sc = {"class": "micro_c07", "symbols": {"BTC": 4, "USD": 2}, "pairs": [["BTC", "USD"]], "explicit_pair_info": [],
          "early_lookup": False, "fee": None, "liq": {"limit": "25", "impact": "0"},
          "lend": {"quote": "USD", "default": cond, "per_symbol": {}}, "max_concurrent": 50, "bars": {"BTC/USD": bars},
          "init": {"USD": _s(p0 * amt / 2), "BTC": "0"}, "actions": actions, "on_order_event": [], "jobs": []}
    if r.random() < 0.5:
        # two explicit loans of exactly the same size are open next to the automatic one
        x_ = r.choice(["50", "7.5"])
        actions["BTC/USD@1"] = [{"op": "loan", "symbol": "USD", "amount": x_, "boundary": False},
                                {"op": "loan", "symbol": "USD", "amount": x_, "boundary": False},
                                {"op": "loan", "symbol": "USD", "amount": x_, "boundary": False},
                                # ... one of them is repaid at once: a closed loan in the credited symbol exists as well
                                {"op": "repay", "among": "open", "pick": 0}] + actions["BTC/USD@1"]
    if r.random() < 0.4:
        # the interest is charged in a third symbol of which the account holds nothing: the principal is affordable,
        # the repayment is not
        sc["symbols"]["ETH"] = 3
        sc["pairs"].append(["ETH", "USD"])
        sc["bars"]["ETH/USD"] = [flat(t, 50, 1000) for t in range(1, 6)]
        sc["init"]["ETH"] = "0"
        cond.update({"interest_symbol": "ETH", "pct": r.choice(["10", "40"]), "period_s": 0, "min": r.choice(["0", "0.001"])})
        if r.random() < 0.5:
            actions["BTC/USD@3"] = [{"op": "cancel", "among": "open", "pick": 0}]
    return sc


def micro_c07_scenario(r) -> Dict[str, Any]:
    """Requests that fail *late*: a pair whose first bar comes after the request, so that a price is missing at one
    of the internal steps (valuing the margin, converting the interest, estimating a market order)."""
    x0 = r.random()
    if x0 < 0.25:
        return micro_c07_blocked_repayment(r)
    if x0 < 0.35:
        return micro_c07_rollback_near_limit(r)
    sc = gen.gen_scenario(r, "margin")
    sc["class"] = "micro_c07"
    sc["symbols"] = {"BTC": 4, "ETH": 3, "USD": 2}
    sc["pairs"] = [["BTC", "USD"], ["ETH", "USD"]]
    sc["explicit_pair_info"] = []
    n = r.randint(6, 12)
    late = r.randint(2, 4)
    sc["bars"] = {"BTC/USD": gen.gen_bars(r, n, 2, D(1000), [D(1000)], step_choices=(1,)),
                  "ETH/USD": [[row[0] + late] + row[1:] for row in gen.gen_bars(r, n - late, 2, D(50), [D(1000)], step_choices=(1,))]}
    sc["init"] = {"USD": r.choice(["0", "1000", "100000"]), "BTC": r.choice(["0", "2"]), "ETH": "0"}
    cond = lambda isym: {"interest_symbol": isym, "pct": r.choice(["1", "7", "40"]),  # noqa: E731
                         "period_s": r.choice([0, 0, 86400]), "min": r.choice(["0", "0.01"]),
                         "req": r.choice(["0", "0", "0.25", "1"])}
    sc["lend"] = {"quote": "USD", "default": cond("USD"), "per_symbol": {"ETH": cond("USD"), "BTC": cond("USD")}}
    if r.random() < 0.25:
        # an interest symbol that can never be priced from the borrowed one (no ETH/BTC pair)
        sc["lend"]["per_symbol"]["ETH"]["interest_symbol"] = "BTC"
    actions: Dict[str, List[Dict[str, Any]]] = {}
    for t in range(1, n + 1):
        acts = []
        for _ in range(r.choice([1, 2, 3])):
            x = r.random()
            if x < 0.45:
                sym = r.choice(["ETH", "ETH", "BTC", "USD"])
                acts.append({"op": "loan", "symbol": sym, "amount": r.choice(["1", "5", "0.5"]), "boundary": False})
            elif x < 0.75:
                acts.append({"op": "order", "kind": r.choice(["market", "limit", "stop"]), "side": r.choice(["buy", "sell"]),
                             "pair": r.choice(["ETH/USD", "BTC/USD"]), "amount": r.choice(["1", "0.5"]),
                             "limit": "40", "stop": "60", "auto_borrow": r.random() < 0.7, "auto_repay": r.random() < 0.3})
            elif x < 0.9:
                acts.append({"op": "repay", "among": r.choice(["open", "open", "closed", "any"]), "pick": r.randrange(10)})
            else:
                acts.append({"op": "cancel", "among": "open", "pick": r.randrange(10)})
        actions[f"BTC/USD@{t}"] = acts
    if r.random() < 0.5:
        # rollback variant: a sell whose minimum fee exceeds its proceeds needs two loans (base to sell, quote for the
        # fee); with a modest equity the small one is granted and the big one refused, so the first must be undone
        sc["fee"] = {"pct": "0.1", "min": r.choice(["5000", "250000", "1000000"])}
        sc["init"] = {"USD": r.choice(["100", "2000", "50000"]), "BTC": "0", "ETH": "0"}
        for c in [sc["lend"]["default"]] + list(sc["lend"]["per_symbol"].values()):
            c["req"] = r.choice(["0.25", "0.5", "1"])
            c["interest_symbol"] = "USD"
        # another loan in the base symbol is already open when the rollbacks happen (it must not be touched by them)
        first_key = sorted(actions, key=lambda k: int(k.split("@")[1]))[0]
        actions[first_key].insert(0, {"op": "loan", "symbol": "BTC", "amount": r.choice(["0.5000", "0.0100", "1.0000"]),
                                      "boundary": False})
        if r.random() < 0.4:
            # the second loan fails for a reason other than funds: the quote symbol cannot be borrowed at all
            sc["lend"]["default"] = None
            sc["lend"]["per_symbol"].pop("USD", None)
        for key in list(actions):
            for _ in range(r.choice([1, 2])):
                actions[key].insert(0, {"op": "order", "kind": r.choice(["limit", "market", "stop"]), "side": "sell",
                                        "pair": "BTC/USD", "amount": r.choice(["0.0100", "0.0500", "0.2000"]),
                                        "limit": "900", "stop": "1100", "auto_borrow": True,
                                        "auto_repay": r.random() < 0.3})
    sc["actions"] = actions
    sc["jobs"] = []
    sc["on_order_event"] = []
    return sc


def micro_c09_scenario(r) -> Dict[str, Any]:
    """The quote symbol's precision is made finer (public Exchange.set_symbol_precision) after the pair has already
    traded: fees of later fills are rounded up at the new precision, fees of earlier orders stay as charged. Market
    orders only, each filled in the bar after its request, so no order spans the change; a query right before the
    change lets the fee monitor see every earlier order at the precision it was charged with."""
    qp0 = r.choice([0, 1, 2])
    qp1 = qp0 + r.choice([1, 2, 3])
    bp = r.choice([2, 4, 6])
    p0 = q(D(r.choice(["100.3719", "7.918273", "2503.77", "0.913377"])) * D(r.choice(["1", "1.37"])), 6)
    flat = lambda t, px: [t, _s(px), _s(px), _s(px), _s(px), "100000"]  # noqa: E731
    nb = 7
    bars = [flat(t, p0 * (1 + D(t % 3) / 100)) for t in range(1, nb + 1)]
    amt = lambda: _s(q(D(r.randint(1, 9)) + unit(bp) * r.randint(1, 10 ** min(bp, 4) - 1), bp))  # noqa: E731
    order = lambda: {"op": "order", "kind": "market", "side": r.choice(["buy", "sell"]), "pair": "BTC/USD",  # noqa: E731
                     "amount": amt(), "auto_borrow": False, "auto_repay": False}
    tk = r.choice([2, 3, 4])
    actions: Dict[str, List[Dict[str, Any]]] = {}
    for t in range(1, nb):
        acts = [order() for _ in range(r.choice([1, 1, 2]))]
        if t == tk:
            acts = [{"op": "query"}, {"op": "refine_base", "symbol": "USD", "precision": qp1}] + acts
        actions[f"BTC/USD@{t}"] = acts
    actions[f"BTC/USD@{nb}"] = [{"op": "query"}]
    return {"class": "micro_c09", "symbols": {"BTC": bp, "USD": qp0}, "pairs": [["BTC", "USD"]], "explicit_pair_info": [],
            "early_lookup": r.random() < 0.5, "fee": {"pct": r.choice(["0.1", "0.25", "0.37", "1.3"]), "min": r.choice(["0", "0", "0.01"])},
            "liq": {"limit": "25", "impact": "0"}, "lend": None, "max_concurrent": 50, "bars": {"BTC/USD": bars},
            "init": {"USD": _s(p0 * 1000), "BTC": "500"}, "actions": actions, "on_order_event": [], "jobs": [],
            "refined_to": qp1}


def run_micro(cls: str, r, prop: str, res: ShardResult, other: collections.Counter, index=None) -> None:
    from vf.exsim import props
    if cls == "micro_c04":
        i = r.randrange(c04_space_size()) if index is None else index
        sc = micro_c04_scenario(i, r)
        run = props.one(prop, sc, res, other)
        res.count("micro_c04_runs")
        res.nontrivial.add(common.digest(["micro_c04", sc["ranks"], sc["actions"]["BTC/USD@1"][0]["kind"],
                                          sc["actions"]["BTC/USD@1"][0]["side"]]))
    elif cls == "micro_c04c":
        sc = micro_c04c_scenario(r)
        run = props.one(prop, sc, res, other)
        res.count("micro_c04c_runs")
        res.count("micro_c04c_resting_orders", len(run.order_seq))
    elif cls == "micro_c04b":
        sc = micro_c04b_scenario(r)
        run = props.one(prop, sc, res, other)
        res.count("micro_c04b_runs")
        if run.stats["fill_checks"]:
            a = sc["actions"]["BTC/USD@1"][0]
            res.nontrivial.add(common.digest(["micro_c04b", a["kind"], a["side"], sc["liq"], len(sc["bars"]["BTC/USD"]),
                                              sorted(s_ for s_ in run.sig if s_[0] == "fill")]))
    elif cls == "micro_c06":
        sc = micro_c06_scenario(r)
        run_boundary(sc, prop, res, other)
    elif cls == "micro_c08":
        props.one(prop, micro_c08_scenario(r), res, other)
        res.count("micro_c08_runs")
    elif cls == "micro_c07":
        props.one(prop, micro_c07_scenario(r), res, other)
        res.count("micro_c07_runs")
    elif cls == "micro_c09":
        run = props.one(prop, micro_c09_scenario(r), res, other)
        res.count("micro_c09_runs")
        res.count("micro_c09_precision_refined", run.stats["precision_refined"])
        res.count("micro_c09_fee_checks_at_earlier_precision", run.stats["fee_checks_at_earlier_precision"])
    elif cls == "micro_c10":
        sc = micro_c10_scenario(r)
        props.one(prop, sc, res, other)
        res.count("micro_c10_runs")


def replay_micro(sc: Dict[str, Any], prop: str, res: ShardResult, other: collections.Counter) -> None:
    from vf.exsim import props
    if sc["class"] == "micro_c06" and "boundary_stage" not in sc:
        run_boundary(sc, prop, res, other)
    else:
        props.one(prop, sc, res, other)


def run_boundary(sc: Dict[str, Any], prop: str, res: ShardResult, other: collections.Counter) -> None:
    """C06, last sentence: accepted with exactly the reservation available, rejected with one unit less."""
    from vf.exsim import props
    base = props.one(prop, sc, res, other)
    res.count("micro_c06_runs")
    if base.stats["ok_create_order"] != 1 or not base.order_seq:
        res.count("micro_c06_base_rejected")
        return
    oid = base.order_seq[0]
    # reservation observed at acceptance with ample funds (it is compared with the reference formula by the
    # reservation monitor inside that run)
    R = getattr(base, "first_reservation", None)
    if R is None:
        return
    res.nontrivial.add(common.digest(["micro_c06", sc["actions"]["ETH/USD@1"][0]["kind"],
                                      sc["actions"]["ETH/USD@1"][0]["side"], sorted(R), bool(sc["fee"]),
                                      sc["symbols"]["BTC"], sc["symbols"]["USD"]]))
    exact = copy.deepcopy(sc)
    exact["boundary_stage"] = "exact"
    exact["init"] = {s: _s(v) for s, v in R.items()}
    run = props.one(prop, exact, res, other)
    res.count("boundary_exact_runs")
    if run.stats["ok_create_order"] != 1:
        v = Violation("C06", "rejected_with_exact_reservation",
                      f"request {sc['actions']['ETH/USD@1'][0]} reserves {R} but was rejected with exactly that available "
                      f"(rejections: {[k for k in run.stats if k.startswith('rej_origin')]})", scenario=exact)
        (res.violate(v) if prop == "C06" else other.update(["C06:rejected_with_exact_reservation"]))
    for s, amt in R.items():
        less = copy.deepcopy(sc)
        less["boundary_stage"] = "less:" + s
        less["init"] = {k: _s(v) for k, v in R.items()}
        less["init"][s] = _s(amt - unit(sc["symbols"][s]))
        run = props.one(prop, less, res, other)
        res.count("boundary_less_runs")
        if run.stats["ok_create_order"] != 0:
            v = Violation("C06", "accepted_with_less_than_reservation",
                          f"request {sc['actions']['ETH/USD@1'][0]} reserves {R} but was accepted with one unit less of {s}",
                          scenario=less)
            (res.violate(v) if prop == "C06" else other.update(["C06:accepted_with_less_than_reservation"]))
