"""Runs one expanded scenario on the real backtesting exchange with all monitors attached.

Observation points (DESIGN.md 3.2): a recording proxy around every API call (snapshot before /
after), a post-sniffer after every dispatched event, the order-event subscription. Monitors append
to a side list and never raise into the code under test.
"""
from __future__ import annotations

import asyncio
import collections
import dataclasses
import datetime
import decimal
import logging
from decimal import Decimal as D
from fractions import Fraction as F
from typing import Any, Dict, List, Optional, Tuple

from vf.common import ShardResult, Violation
from vf.exsim.gen import q, unit

UTC = datetime.timezone.utc
T0 = datetime.datetime(2000, 1, 1, tzinfo=UTC)
ZERO = D(0)


def T(hours) -> datetime.datetime:
    return T0 + datetime.timedelta(hours=hours)


def hours_of(dt: datetime.datetime) -> float:
    return (dt - T0).total_seconds() / 3600


@dataclasses.dataclass
class Snap:
    seq: int
    clock: Optional[datetime.datetime]
    bal: Dict[str, Tuple[D, D, D]]            # symbol -> (available, hold, borrowed), zero rows dropped
    orders: Dict[str, Any]                    # id -> OrderInfo
    open_ids: List[str]
    loans: Dict[str, Any]                     # id -> LoanInfo
    prices: Dict[str, D] = dataclasses.field(default_factory=dict)   # pair name -> last close as the exchange sees it
    loans_stale: bool = False                 # get_loans() raised: `loans` is the last known listing

    def total(self, s: str) -> D:
        a, h, b = self.bal.get(s, (ZERO, ZERO, ZERO))
        return a + h - b

    def avail(self, s: str) -> D:
        return self.bal.get(s, (ZERO, ZERO, ZERO))[0]

    def hold(self, s: str) -> D:
        return self.bal.get(s, (ZERO, ZERO, ZERO))[1]

    def borrowed(self, s: str) -> D:
        return self.bal.get(s, (ZERO, ZERO, ZERO))[2]

    def state_key(self):
        return (
            self.bal,
            {i: _oi_key(o) for i, o in self.orders.items()},
            sorted(self.open_ids),
            {i: (lo.is_open, lo.borrowed_symbol, lo.borrowed_amount, tuple(sorted(lo.paid_interest.items())))
             for i, lo in self.loans.items()},
        )


def _oi_key(o) -> tuple:
    return (o.is_open, o.operation, o.amount, o.amount_filled, o.amount_remaining, o.quote_amount_filled,
            tuple(sorted(o.fees.items())), o.limit_price, o.stop_price, tuple(sorted(o.loan_ids)))


def _ostate(o) -> tuple:
    return (o.amount_filled, o.quote_amount_filled, tuple(sorted(o.fees.items())), o.is_open)


class LogCapture(logging.Handler):
    def __init__(self, sink: Optional[List[str]] = None):
        super().__init__(level=logging.ERROR)
        self.records: List[str] = sink if sink is not None else []

    def emit(self, record):
        try:
            msg = record.getMessage()
        except Exception as e:  # pragma: no cover
            msg = f"<unformattable {e!r}>"
        exc = ""
        if record.exc_info and record.exc_info[1] is not None:
            exc = f"{type(record.exc_info[1]).__name__}: {record.exc_info[1]}"
        self.records.append(f"{record.name}: {msg[:160]} :: {exc}")


class Run:
    def __init__(self, sc: Dict[str, Any], res: ShardResult):
        self.sc = sc
        self.res = res
        self.viol: List[Violation] = []
        self.stats: collections.Counter = collections.Counter()
        self.sig: set = set()                      # situation signature (for distinctness)
        self.seq = 0
        self.prev: Optional[Snap] = None
        self.meta: Dict[str, Dict[str, Any]] = {}  # order id -> request data
        self.order_seq: List[str] = []
        self.loan_meta: Dict[str, Dict[str, Any]] = {}
        self.events: Dict[str, List[Tuple[datetime.datetime, Any]]] = collections.defaultdict(list)
        self.polled: Dict[str, List[tuple]] = collections.defaultdict(list)
        self.poll_closed_at: Dict[str, Any] = {}
        self.rem: Dict[str, Dict[str, D]] = {}
        self.last_ev: Dict[str, Tuple[D, D, D]] = {}
        self.cancel_ok: Dict[str, Any] = {}         # order id -> clock of the successful cancel
        self.n_order_events = 0
        self.first_sight: set = set()
        self.interest_seen: Dict[str, Tuple[Any, D, Any]] = {}
        self.anomalies: List[str] = []
        self.before_clock: Dict[Any, Snap] = {}
        self.events1: List[tuple] = []
        self.events2: List[tuple] = []
        self.shared_lending = None      # a MarginLoans object already used by a previous exchange (re-use scenario)
        self.ls = None
        self.listing_stride = 6        # full listing comparison on every n-th snapshot once there are many orders
        self.offgrid_loans = False     # a loan amount off the precision grid was requested (C08's premise is void)
        self.symbols: Dict[str, int] = sc["symbols"]
        self.barmap: Dict[Tuple[str, datetime.datetime], Tuple[D, D, D, D, D]] = {}
        self.bars_by_pair: Dict[str, List[Tuple[datetime.datetime, D, D, D, D, D]]] = {}
        for pname, blist in sc["bars"].items():
            lst = []
            for (t, o, h, low, c, v) in blist:
                tup = (T(t), D(o), D(h), D(low), D(c), D(v))
                lst.append(tup)
                self.barmap[(pname, T(t))] = tup[1:]
            self.bars_by_pair[pname] = lst
        # an optional second feed of the same pair (e.g. 2 h bars next to 1 h bars): its bars share their closing time with
        # bars of the first feed and are matched right after them
        self.barmap2: Dict[Tuple[str, datetime.datetime], Tuple[D, D, D, D, D]] = {}
        self.bars2_by_pair: Dict[str, List[Tuple[datetime.datetime, D, D, D, D, D, int]]] = {}
        for pname, blist in (sc.get("bars2") or {}).items():
            lst2 = []
            for (t, o, h, low, c, v, span) in blist:
                tup = (T(t), D(o), D(h), D(low), D(c), D(v), span)
                lst2.append(tup)
                self.barmap2[(pname, T(t))] = tup[1:6]
            self.bars2_by_pair[pname] = lst2
        self.fee = (D(sc["fee"]["pct"]), D(sc["fee"]["min"])) if sc.get("fee") else None
        self.liq = (D(sc["liq"]["limit"]), D(sc["liq"]["impact"])) if sc.get("liq") else None
        self.lend = sc.get("lend")
        self.init = {k: D(v) for k, v in sc["init"].items()}
        self.opening_debt = {k: -v for k, v in self.init.items() if v < 0}
        self.last_fees: Dict[str, Dict[str, D]] = {}
        self.fee_prec: Dict[str, Tuple[D, int]] = {}
        self._viol_count: collections.Counter = collections.Counter()

    # ------------------------------------------------------------------------------------
    def v(self, prop: str, kind: str, msg: str, mechanism: str = "") -> None:
        self.stats[f"viol_{prop}"] += 1
        # bounded per (property, kind): a noisy monitor of one property must not crowd out the others
        self._viol_count[(prop, kind)] += 1
        if self._viol_count[(prop, kind)] <= 4 and len(self.viol) < 400:
            self.viol.append(Violation(prop, kind, msg, scenario=self.sc, mechanism=mechanism))

    def pair_prec(self, pname: str) -> Tuple[int, int]:
        b, qs = pname.split("/")
        if pname in self.sc.get("pair_prec", {}):
            bp, qp = self.sc["pair_prec"][pname]
            return bp, qp
        return self.symbols[b], self.symbols[qs]

    def grid(self, s: str) -> Optional[int]:
        """Finest precision any configured pair or the symbol itself gives `s`: the grid of its balances."""
        p = self.symbols.get(s)
        for pname, (bp, qp) in self.sc.get("pair_prec", {}).items():
            b, qs = pname.split("/")
            if s == b:
                p = max(p, bp) if p is not None else bp
            if s == qs:
                p = max(p, qp) if p is not None else qp
        return p

    def cond(self, symbol: str) -> Optional[Dict[str, Any]]:
        if not self.lend:
            return None
        return self.lend["per_symbol"].get(symbol, self.lend["default"])

    # ------------------------------------------------------------------------------------
    async def build(self):
        from basana.core import dispatcher, event, bar
        from basana.core.pair import Pair, PairInfo
        from basana.backtesting import exchange, liquidity, lending, fees

        sc = self.sc
        self.d = dispatcher.backtesting_dispatcher(max_concurrent=sc.get("max_concurrent", 50))
        kw: Dict[str, Any] = {}
        if self.fee:
            kw["fee_strategy"] = fees.Percentage(self.fee[0], self.fee[1])
        if self.liq:
            lim, imp = self.liq
            kw["liquidity_strategy_factory"] = lambda: liquidity.VolumeShareImpact(lim, imp)
        else:
            kw["liquidity_strategy_factory"] = liquidity.InfiniteLiquidity
        if self.lend:
            def mk(c):
                return lending.MarginLoanConditions(
                    interest_symbol=c["interest_symbol"], interest_percentage=D(c["pct"]),
                    interest_period=datetime.timedelta(seconds=c["period_s"]), min_interest=D(c["min"]),
                    margin_requirement=D(c["req"]))
            self._mk_cond = mk
            ls = self.shared_lending
            style = sc.get("lend_style", "plain") if ls is None else "plain"
            if ls is None and style == "subclass":
                run_ = self

                class OwnConditions(lending.MarginLoans):
                    """Conditions are answered by an override of the public get_conditions()."""

                    def get_conditions(self, symbol):
                        c_ = run_.cond(symbol)
                        if c_ is None:
                            from basana.core import errors as _errors
                            raise _errors.Error(f"No lending conditions for {symbol}")
                        return mk(c_)

                    def set_conditions(self, symbol, conditions):
                        pass      # run_.lend is the single source (set_cond actions update it)
                # the base class is configured too, leniently (no requirement at all): what counts is the override
                lenient = dict(self.lend["default"] or {"interest_symbol": self.lend["quote"], "pct": "0", "period_s": 0, "min": "0"},
                               req="0")
                ls = OwnConditions(self.lend["quote"], default_conditions=mk(lenient))
                self.stats["lend_style_subclass"] += 1
            elif ls is None:
                ls = lending.MarginLoans(self.lend["quote"],
                                         default_conditions=mk(self.lend["default"]) if self.lend["default"] else None)
                for s, c in self.lend["per_symbol"].items():
                    ls.set_conditions(s, mk(c))
            self.ls = ls
            if style == "wrapper":
                from basana.backtesting.lending import base as _lbase
                inner = ls

                class Delegating(_lbase.LendingStrategy):
                    """A strategy of the application's own that hands everything over to a MarginLoans it owns."""

                    def set_exchange_context(self, loan_mgr, exchange_context):
                        inner.set_exchange_context(loan_mgr, exchange_context)

                    def create_loan(self, symbol, amount, created_at):
                        return inner.create_loan(symbol, amount, created_at)
                kw["lending_strategy"] = Delegating()
                self.stats["lend_style_wrapper"] += 1
            else:
                kw["lending_strategy"] = ls
        if self.sc.get("base_fee_pct"):
            # a custom fee scheme (public FeeStrategy interface) charging buys in the asset they receive
            pct = D(self.sc["base_fee_pct"])

            class BaseAssetFee(fees.FeeStrategy):
                def calculate_fees(self, order, balance_updates):
                    b = order.pair.base_symbol
                    amt = balance_updates.get(b, D(0))
                    return {b: -(amt * pct / 100)} if amt > 0 else {}
            kw["fee_strategy"] = BaseAssetFee()
        self.e = exchange.Exchange(self.d, dict(self.init), **kw)
        if self.sc.get("early_lookup"):
            # the application asks for pair information before it configures the precisions
            for b_, q_ in sc["pairs"]:
                await self.e.get_pair_info(Pair(b_, q_))
        for s, p in self.symbols.items():
            self.e.set_symbol_precision(s, p)
        self.pairs: Dict[str, Any] = {}
        for i, (b, qs) in enumerate(sc["pairs"]):
            p = Pair(b, qs)
            self.pairs[f"{b}/{qs}"] = p
            if i in sc.get("explicit_pair_info", []):
                self.e.set_pair_info(p, PairInfo(*self.pair_prec(f"{b}/{qs}")))
        for pname, lst in self.bars_by_pair.items():
            p = self.pairs[pname]
            src = event.FifoQueueEventSource()
            dur = datetime.timedelta(hours=sc.get("bar_hours", {}).get(pname, 1))
            for (when, o, h, low, c, vol) in lst:
                src.push(bar.BarEvent(when, bar.Bar(when - dur, p, o, h, low, c, vol)))
            self.e.add_bar_source(src)
            if len(lst) % 4 == 1:
                self.e.add_bar_source(src)      # registering a feed again is harmless: every bar is still matched once
                self.stats["feeds_registered_twice"] += 1
        for pname, lst2 in self.bars2_by_pair.items():
            src2 = event.FifoQueueEventSource()
            for (when, o, h, low, c, vol, span) in lst2:
                src2.push(bar.BarEvent(when, bar.Bar(when - datetime.timedelta(hours=span), self.pairs[pname], o, h, low, c, vol)))
            self.e.add_bar_source(src2)
            self.stats["second_feeds"] += 1
        for pname in self.bars_by_pair:
            self.e.subscribe_to_bar_events(self.pairs[pname], self._mk_strategy(pname))
        self.polling = bool(sc.get("no_order_events"))
        if not self.polling:
            self.e.subscribe_to_order_events(self.on_order_event)
            self.e.subscribe_to_order_events(self.on_order_event_2)     # every subscriber gets the same sequence
        # else: a strategy that never subscribes to order events and polls instead - what the exchange reports through
        # get_order_info / get_orders / get_open_orders must not depend on anybody listening
        self.d.subscribe_all(self.post_sniffer)
        if len(repr(sorted(sc["actions"]))) % 3 == 0:
            # another account lives in the same process and is configured differently (finer precisions everywhere,
            # its own fee and lending objects): nothing of it may show in this one
            from basana.core import dispatcher as _disp
            self.stats["decoy_exchanges"] += 1
            d2 = _disp.backtesting_dispatcher()
            # (a stateless fee scheme object may well be shared by both accounts)
            kw2: Dict[str, Any] = {"fee_strategy": kw["fee_strategy"] if self.fee and not self.sc.get("base_fee_pct")
                                   else fees.Percentage(D("7.77"), D("3"))}
            if self.lend:
                kw2["lending_strategy"] = lending.MarginLoans(self.lend["quote"], default_conditions=self._mk_cond(
                    {"interest_symbol": self.lend["quote"], "pct": "99", "period_s": 60, "min": "1", "req": "5"}))
            decoy = exchange.Exchange(d2, {s_: D(5) for s_ in self.symbols}, **kw2)
            def other(p_):
                return p_ - 2 if p_ >= 2 else p_ + 3       # coarser where possible, finer otherwise: never the same
            for s_, p_ in self.symbols.items():
                decoy.set_symbol_precision(s_, other(p_))
            for pname, pr in self.pairs.items():
                bp_, qp_ = self.pair_prec(pname)
                decoy.set_pair_info(pr, PairInfo(other(bp_), other(qp_)))
            self.decoy = decoy
        for job in sc.get("jobs", []):
            when = T(job["t"]) + (datetime.timedelta(minutes=30) if job.get("half") else datetime.timedelta(0)) + \
                datetime.timedelta(microseconds=job.get("us", 0))
            self.d.schedule(when, self._mk_job(job["action"]))

    async def run(self):
        from vf.exsim import contracts
        contracts.CURRENT["run"] = self
        cap = LogCapture(self.anomalies)
        lg = logging.getLogger("basana")
        lg.addHandler(cap)
        try:
            await self.build()
            await self.snapshot(("init",))
            await self.d.run(stop_signals=[])
            await self.snapshot(("end",))
            self.final()
        finally:
            lg.removeHandler(cap)

    # ------------------------------------------------------------------------------------
    # strategy script execution
    def _mk_strategy(self, pname: str):
        async def on_bar(ev):
            key = f"{pname}@{int(round(hours_of(ev.when)))}"
            for act in self.sc["actions"].get(key, []):
                await self.do(act)
        return on_bar

    def _mk_job(self, action):
        async def job():
            await self.do(action)
        return job

    async def do(self, act: Dict[str, Any], ctx_order: Optional[str] = None) -> None:
        from basana.core.enums import OrderOperation as Op
        e = self.e
        op = act["op"]
        try:
            if op == "order":
                pair = self.pairs[act["pair"]]
                side = Op.BUY if act["side"] == "buy" else Op.SELL
                amt = D(act["amount"])
                kw = dict(auto_borrow=act.get("auto_borrow", False), auto_repay=act.get("auto_repay", False))
                k = act["kind"]
                if k == "market":
                    f = lambda: e.create_market_order(side, pair, amt, **kw)  # noqa: E731
                elif k == "limit":
                    f = lambda: e.create_limit_order(side, pair, amt, D(act["limit"]), **kw)  # noqa: E731
                elif k == "stop":
                    f = lambda: e.create_stop_order(side, pair, amt, D(act["stop"]), **kw)  # noqa: E731
                else:
                    f = lambda: e.create_stop_limit_order(side, pair, amt, D(act["stop"]), D(act["limit"]), **kw)  # noqa: E731
                await self.call("create_order", f, act)
            elif op in ("cancel", "cancel_same"):
                if op == "cancel_same":
                    oid = ctx_order
                else:
                    oid = self._pick_order(act)
                if oid is not None:
                    await self.call("cancel_order", lambda: e.cancel_order(oid), {"id": oid})
            elif op == "loan":
                amt = D(act["amount"])
                if act.get("boundary"):
                    amt = await self._boundary_loan(act["symbol"], amt)
                if amt != q(amt, self.symbols[act["symbol"]], decimal.ROUND_DOWN):
                    self.offgrid_loans = True
                    self.stats["offgrid_loan_requests"] += 1
                await self.call("create_loan", lambda: e.create_loan(act["symbol"], amt),
                                {"symbol": act["symbol"], "amount": amt})
            elif op == "repay":
                lid = self._pick_loan(act)
                if lid is not None:
                    await self.call("repay_loan", lambda: e.repay_loan(lid), {"id": lid})
            elif op == "refine_base":
                # the base symbol's precision is made finer while the backtest runs (amounts on the old grid stay valid)
                from basana.core.pair import PairInfo
                sym, newp = act["symbol"], act["precision"]
                if newp > self.symbols[sym]:
                    self.symbols = dict(self.symbols, **{sym: newp})
                    self.e.set_symbol_precision(sym, newp)
                    for i, (b_, q_) in enumerate(self.sc["pairs"]):
                        if i in self.sc.get("explicit_pair_info", []) and sym in (b_, q_):
                            self.e.set_pair_info(self.pairs[f"{b_}/{q_}"], PairInfo(self.symbols[b_], self.symbols[q_]))
                    self.stats["precision_refined"] += 1
            elif op == "set_cond":
                # the lending conditions of a symbol are changed while the backtest runs (public MarginLoans API)
                import copy as _copy
                if self.lend is not None:
                    self.lend = _copy.deepcopy(self.lend)
                    self.lend["per_symbol"][act["symbol"]] = act["cond"]
                    self.ls.set_conditions(act["symbol"], self._mk_cond(act["cond"]))
                    self.stats["conditions_changed"] += 1
            elif op == "query":
                await self.listing_check(await self.snapshot(("query",)), force=True)
            elif op == "schedule":
                when = self.d.now() + datetime.timedelta(minutes=act["minutes"])
                self.d.schedule(when, self._mk_job(act["action"]))
                self.stats["jobs_scheduled_from_handlers"] += 1
        except Exception as ex:  # API errors are expected outcomes; anything else is recorded as an anomaly
            from basana.core import errors as core_errors
            if not isinstance(ex, core_errors.Error):
                import traceback
                tb = traceback.extract_tb(ex.__traceback__)
                if tb and "/vf/" in tb[-1].filename:
                    # a bug in the harness must never look like a verdict
                    self.res.errors.append("monitor failure: " + traceback.format_exc()[-800:])
                    self.stats["monitor_failures"] += 1
                else:
                    self.anomalies.append(f"api {op} raised {type(ex).__name__}: {ex}")
                    self.stats["non_basana_exception_from_api"] += 1
                    # a request either succeeds or is refused with one of the library's own errors: an internal error
                    # (KeyError, AssertionError, ...) escaping from the public API is neither
                    for prop in {"repay": ("C07", "C11"), "loan": ("C07", "C10"), "order": ("C07", "C06"),
                                 "cancel": ("C07", "C05")}.get(op, ("C07",)):
                        self.v(prop, "internal_error_from_api",
                               f"{op}({_fmt({k: v for k, v in act.items() if k != 'op'})}) raised {type(ex).__name__}: {ex} "
                               f"(at {tb[-1].filename.split('/')[-1]}:{tb[-1].lineno})" if tb else f"{op} raised {type(ex).__name__}")

    def _pick_order(self, act) -> Optional[str]:
        snap = self.prev
        ids = list(self.order_seq)
        among = act["among"]
        if among == "unknown":
            return "no-such-order-%d" % act["pick"]
        if snap is not None:
            if among == "open":
                ids = [i for i in ids if i in snap.orders and snap.orders[i].is_open]
            elif among == "closed":
                ids = [i for i in ids if i in snap.orders and not snap.orders[i].is_open]
        if not ids:
            return None
        return ids[act["pick"] % len(ids)]

    def _pick_loan(self, act) -> Optional[str]:
        snap = self.prev
        among = act["among"]
        if among == "unknown":
            return "no-such-loan-%d" % act["pick"]
        ids = list(self.loan_meta)
        if snap is not None:
            if among == "open":
                ids = [i for i in ids if i in snap.loans and snap.loans[i].is_open]
            elif among == "closed":
                ids = [i for i in ids if i in snap.loans and not snap.loans[i].is_open]
        if not ids:
            return None
        return ids[act["pick"] % len(ids)]

    def convert_price(self, snap: Snap, a: str, b: str) -> Optional[F]:
        """Price of one `a` in `b` at the last closes the exchange has seen (public bid/ask mid), or None."""
        if a == b:
            return F(1)
        if f"{a}/{b}" in snap.prices:
            return F(snap.prices[f"{a}/{b}"])
        if f"{b}/{a}" in snap.prices and snap.prices[f"{b}/{a}"] != 0:
            return 1 / F(snap.prices[f"{b}/{a}"])
        return None

    def price_in_quote(self, symbol: str, snap: Snap) -> Optional[F]:
        return self.convert_price(snap, symbol, self.lend["quote"] if self.lend else "USD")

    def equity_and_used(self, snap: Snap) -> Optional[Tuple[F, F]]:
        eq = F(0)
        used = F(0)
        principal: Dict[str, D] = collections.defaultdict(D)
        if not snap.loans_stale:
            for lo in snap.loans.values():
                if lo.is_open:
                    principal[lo.borrowed_symbol] += lo.borrowed_amount
        for s in set(snap.bal) | set(principal):
            a, h, b = snap.bal.get(s, (ZERO, ZERO, ZERO))
            net = a + h - b
            # "everything borrowed": the borrowed balance, and in any case the loans the exchange itself lists as open
            b = max(b, principal.get(s, ZERO) + self.opening_debt.get(s, ZERO))
            c = self.cond(s)
            px = self.price_in_quote(s, snap)
            if net > 0:
                if px is None:
                    return None
                eq += F(net) * px
            if b > 0:
                if c is None:
                    return None
                if D(c["req"]) != 0:
                    if px is None:
                        return None
                    used += F(b) * F(D(c["req"])) * px
        return eq, used

    async def _boundary_loan(self, symbol: str, fallback: D) -> D:
        snap = await self.snapshot(("pre-boundary",))
        c = self.cond(symbol)
        eu = self.equity_and_used(snap)
        px = self.price_in_quote(symbol, snap)
        if c is None or eu is None or px is None or D(c["req"]) == 0:
            return fallback
        eq, used = eu
        room = (eq - used) / (F(D(c["req"])) * px)
        p = self.symbols[symbol]
        if room <= 0:
            return unit(p)
        if room >= 10 ** 15:
            return fallback           # the largest grantable amount does not fit the 28-digit context at this precision
        with decimal.localcontext() as ctx:
            ctx.prec = 80
            x = q(D(room.numerator) / D(room.denominator), p, decimal.ROUND_DOWN)
        k = int(fallback * 7) % 3 - 1
        x = x + k * unit(p)
        self.stats["boundary_loans"] += 1
        return x if x > 0 else unit(p)

    # ------------------------------------------------------------------------------------
    async def snapshot(self, interval: tuple, check: bool = True) -> Snap:
        from basana.core import errors as core_errors
        e = self.e
        self.seq += 1
        bal = {}
        for s, b in (await e.get_balances()).items():
            if b.total != b.available + b.hold - b.borrowed:
                self.v("C02", "total_identity", f"{s}: total {b.total} != {b.available}+{b.hold}-{b.borrowed}")
            if b.available or b.hold or b.borrowed:
                bal[s] = (b.available, b.hold, b.borrowed)
        orders = {o.id: o for o in await e.get_orders()}
        open_ids = [o.id for o in await e.get_open_orders()]
        loans_stale = False
        try:
            loans = {lo.id: lo for lo in await e.get_loans()}
        except core_errors.Error as ex:
            # e.g. NoPrice while valuing the interest of an open loan: the listing itself is unusable. Keep the last
            # known loans and skip the loan-based monitors for this snapshot (the balance-based ones still run).
            loans = dict(self.prev.loans) if self.prev is not None else {}
            loans_stale = True
            self.stats["get_loans_raised"] += 1
            if self.stats["get_loans_raised"] == 1:
                self.anomalies.append(f"get_loans raised {type(ex).__name__}: {ex}")
        clock = self.d.now() if self.d.now_available else None
        prices: Dict[str, D] = {}
        for pname, pair in self.pairs.items():
            try:
                bid, ask = await e.get_bid_ask(pair)
                prices[pname] = (bid + ask) / 2
            except core_errors.Error:
                pass
        snap = Snap(self.seq, clock, bal, orders, open_ids, loans, prices)
        snap.loans_stale = loans_stale
        if clock is not None and clock not in self.before_clock and self.prev is not None:
            self.before_clock[clock] = self.prev     # account state before anything of this clock value was handled
        self.stats["snapshots"] += 1
        if check:
            try:
                self.check_snapshot(snap, interval)
            except Exception as ex:  # a bug in the monitor must not look like a verdict
                self.anomalies.append(f"monitor failure: {type(ex).__name__}: {ex}")
                self.stats["monitor_failures"] += 1
                import traceback
                self.res.errors.append("monitor failure: " + traceback.format_exc()[-800:])
            stride = self.listing_stride if len(orders) > 8 else 1
            if self.sc.get("class") in ("long", "long_q"):
                stride = max(stride, 7)
            if self.seq % stride == 0 or interval[0] == "end":
                await self.listing_check(snap)
            self.prev = snap
        return snap

    async def listing_check(self, snap: Snap, force: bool = False) -> None:
        e = self.e
        self.stats["listing_checks"] += 1
        known = {i: m["pair"] for i, m in self.meta.items()}
        for pname, pair in list(self.pairs.items()) + [(None, None)]:
            exp_open = [i for i in self.order_seq if i in snap.orders and snap.orders[i].is_open
                        and (pname is None or known[i] == pname)]
            got = [o.id for o in (await e.get_open_orders(pair) if pair is not None else await e.get_open_orders())]
            if sorted(got) != sorted(exp_open) or len(set(got)) != len(got):
                self.v("C05", "open_listing_mismatch",
                       f"get_open_orders({pname}) returned {len(got)} ids, expected {len(exp_open)} "
                       f"(missing {sorted(set(exp_open) - set(got))[:2]}, extra {sorted(set(got) - set(exp_open))[:2]})")
            for is_open in (None, True, False):
                exp = [i for i in self.order_seq if i in snap.orders and (pname is None or known[i] == pname)
                       and (is_open is None or snap.orders[i].is_open == is_open)]
                got2 = await e.get_orders(pair=pair, is_open=is_open)
                ids2 = [o.id for o in got2]
                if sorted(ids2) != sorted(exp) or len(set(ids2)) != len(ids2):
                    self.v("C05", "orders_listing_mismatch",
                           f"get_orders({pname}, is_open={is_open}) returned {len(ids2)} orders, expected {len(exp)}")
                for o in got2:
                    if o.id in snap.orders and _oi_key(o) != _oi_key(snap.orders[o.id]):
                        self.v("C05", "orders_listing_stale", f"get_orders returned a different state for {o.id}")
        for sym in self.symbols:
            b1 = await e.get_balance(sym)
            exp_b = snap.bal.get(sym, (ZERO, ZERO, ZERO))
            if (b1.available, b1.hold, b1.borrowed) != exp_b or b1.total != exp_b[0] + exp_b[1] - exp_b[2]:
                self.v("C02", "get_balance_ne_get_balances", f"get_balance({sym}) = {b1}, get_balances() says {exp_b}")
        if snap.loans and not snap.loans_stale:
            # filtered loan listings agree with the full one (the open listing is what 'borrowed' is compared with)
            from basana.core import errors as core_errors
            try:
                for sym in [None] + sorted({lo.borrowed_symbol for lo in snap.loans.values()}):
                    for is_open in (None, True, False):
                        got3 = await e.get_loans(borrowed_symbol=sym, is_open=is_open)
                        exp3 = [i for i, lo in snap.loans.items() if (sym is None or lo.borrowed_symbol == sym)
                                and (is_open is None or lo.is_open == is_open)]
                        ids3 = [lo.id for lo in got3]
                        self.stats["loan_listing_checks"] += 1
                        if sorted(ids3) != sorted(exp3) or len(set(ids3)) != len(ids3):
                            for prop in ("C02", "C11"):
                                self.v(prop, "loans_listing_mismatch",
                                       f"get_loans(borrowed_symbol={sym}, is_open={is_open}) returned {len(ids3)} loans, "
                                       f"{len(exp3)} of the {len(snap.loans)} loans listed without a filter match")
                for i in list(snap.loans)[-3:]:
                    one_ = await e.get_loan(i)
                    lo = snap.loans[i]
                    if (one_.is_open, one_.borrowed_symbol, one_.borrowed_amount) != (lo.is_open, lo.borrowed_symbol, lo.borrowed_amount):
                        self.v("C11", "loan_info_mismatch", f"get_loan({i}) differs from get_loans()")
            except core_errors.Error:
                self.stats["loan_listing_unavailable"] += 1
        if self.lend is None and snap.loans:
            self.v("C10", "loan_without_lending", f"{len(snap.loans)} loans exist although no lending strategy is configured")
        for i in list(self.order_seq)[-5:]:
            info = await e.get_order_info(i)
            if i in snap.orders and _oi_key(info) != _oi_key(snap.orders[i]):
                self.v("C05", "order_info_mismatch", f"get_order_info({i}) differs from get_orders()")

    # ------------------------------------------------------------------------------------
    async def call(self, name: str, fn, args: Dict[str, Any]):
        before = await self.snapshot(("pre-call", name))
        clock = before.clock
        loan_before_info = None
        if name == "repay_loan" and args["id"] in before.loans and not before.loans_stale:
            loan_before_info = before.loans[args["id"]]
        try:
            result = await fn()
        except Exception as ex:
            after = await self.snapshot(("call-raised", name, args, ex), check=False)
            self.on_rejected(name, args, before, after, ex)
            self.check_snapshot(after, ("call-raised", name, args, ex))
            self.prev = after
            raise
        after = await self.snapshot(("call-ok", name, args, result), check=False)
        # Install shadows first, then run the snapshot checks (pitfall: reservation must be known to them).
        await self.on_accepted(name, args, before, after, result, clock, loan_before_info)
        self.check_snapshot(after, ("call-ok", name, args, result))
        self.prev = after
        return result

    def on_rejected(self, name, args, before: Snap, after: Snap, ex) -> None:
        from basana.core import errors as core_errors
        self.stats[f"rejected_{name}"] += 1
        origin = _rejection_origin(name, ex)
        self.stats[f"rej_origin_{origin}"] += 1
        self.sig.add(("rej", name, origin))
        if not isinstance(ex, core_errors.Error):
            return
        kb, ka = before.state_key(), after.state_key()
        if kb[0] != ka[0]:
            diff = {s: (before.bal.get(s), after.bal.get(s)) for s in set(kb[0]) | set(ka[0])
                    if before.bal.get(s) != after.bal.get(s)}
            self.v("C07", "balances_changed_by_rejected_call",
                   f"{name}({_fmt(args)}) raised {type(ex).__name__}({ex}) but balances changed: {diff}",
                   mechanism=self._classify_c07(name, ex, before, after))
        if name == "create_order" and any(i not in kb[1] for i in ka[1]):
            # C06: a request is either accepted (and reserves its funds) or rejected - a rejected one is not a live order
            self.v("C06", "rejected_request_left_an_order",
                   f"{name}({_fmt(args)}) raised {type(ex).__name__}({ex}) but the exchange now lists "
                   f"{len(ka[1]) - len(kb[1])} more order(s), {len(ka[2])} open")
        if kb[1] != ka[1] or kb[2] != ka[2]:
            changed = [i for i in ka[1] if kb[1].get(i) != ka[1][i]]
            self.v("C07", "orders_changed_by_rejected_call",
                   f"{name}({_fmt(args)}) raised {type(ex).__name__}({ex}) but orders changed: {changed[:3]} "
                   f"open before {len(kb[2])} after {len(ka[2])}",
                   mechanism=self._classify_c07(name, ex, before, after))
        # loans: the ones that existed must be unchanged; new ones must be closed without interest
        for i, lo in before.loans.items():
            if kb[3].get(i) != ka[3].get(i):
                self.v("C07", "loans_changed_by_rejected_call",
                       f"{name}({_fmt(args)}) raised {ex} but loan {i} changed {kb[3].get(i)} -> {ka[3].get(i)}")
        for i, lo in after.loans.items():
            if i not in before.loans:
                self.loan_meta[i] = {"symbol": lo.borrowed_symbol, "amount": lo.borrowed_amount,
                                     "created": before.clock, "via": "rejected_" + name,
                                     "cond": self.cond(lo.borrowed_symbol)}
                self.stats["loans_rolled_back"] += 1
                self.sig.add(("rollback",))
                if lo.is_open or any(lo.paid_interest.values()):
                    self.v("C07", "loan_left_by_rejected_call",
                           f"{name}({_fmt(args)}) raised {ex} and left loan {lo}",
                           mechanism=self._classify_c07(name, ex, before, after))
                    if lo.is_open:
                        self.v("C11", "loan_of_rejected_request_left_open",
                               f"{name}({_fmt(args)}) was rejected ({type(ex).__name__}: {ex}) but the loan it created "
                               f"({lo.borrowed_amount} {lo.borrowed_symbol}) stays open",
                               mechanism=self._classify_c07(name, ex, before, after))
        if name == "create_loan" and self.lend is None:
            self.stats["noloans_rejections"] += 1

    def _classify_c07(self, name, ex, before: Snap, after: Snap) -> str:
        if name == "cancel_order" and "Margin level too low" in str(ex):
            self.anomalies.append("cancel_order rejected: Margin level too low")
            return "margin_rule_on_non_borrowing_update"
        if name == "create_order" and "Margin level too low" in str(ex) and \
                any(i not in before.loans and lo.is_open for i, lo in after.loans.items()):
            # the loans were granted, then the hold of the borrowed funds was refused by the margin rule
            return "margin_rule_on_non_borrowing_update"
        return ""

    async def on_accepted(self, name, args, before: Snap, after: Snap, result, clock, loan_before_info) -> None:
        self.stats[f"ok_{name}"] += 1
        new_loans = [i for i in after.loans if i not in before.loans]
        for i in new_loans:
            lo = after.loans[i]
            self.loan_meta[i] = {"symbol": lo.borrowed_symbol, "amount": lo.borrowed_amount, "created": clock,
                                 "via": name, "cond": self.cond(lo.borrowed_symbol)}
        if name == "create_order":
            oid = result.id
            pname = args["pair"]
            self.meta[oid] = {"kind": args["kind"], "side": args["side"], "pair": pname, "amount": D(args["amount"]),
                              "limit": D(args["limit"]) if "limit" in args and args["kind"] in ("limit", "stop_limit") else None,
                              "stop": D(args["stop"]) if "stop" in args and args["kind"] in ("stop", "stop_limit") else None,
                              "auto_borrow": args.get("auto_borrow", False), "auto_repay": args.get("auto_repay", False),
                              "t": clock, "seq": len(self.order_seq)}
            self.order_seq.append(oid)
            self.sig.add(("order", args["kind"], args["side"], args.get("auto_borrow", False), args.get("auto_repay", False)))
            syms = set(before.bal) | set(after.bal)
            R = {s: after.hold(s) - before.hold(s) for s in syms if after.hold(s) != before.hold(s)}
            self.rem[oid] = dict(R)
            self.meta[oid]["R"] = dict(R)
            if not hasattr(self, "first_reservation"):
                self.first_reservation = dict(R)
            self.last_ev[oid] = (ZERO, ZERO, ZERO)
            await self.check_reservation(oid, R, before, after)
            # totals must not change by placing an order
            self.totals_unchanged("create_order", before, after)
            if new_loans:
                self.stats["auto_borrow_loans"] += len(new_loans)
                self.sig.add(("auto_borrow_granted", len(new_loans)))
                await self.check_margin_after_grant(name, args, after)
        elif name == "cancel_order":
            ob = before.orders.get(args["id"])
            if ob is None:
                self.v("C05", "cancel_of_unknown_order_succeeded", f"cancel_order({args['id']}) returned for an id no request created")
                return
            if not ob.is_open:
                self.v("C05", "cancel_of_closed_order_succeeded",
                       f"cancel_order({args['id']}) returned although the order was already closed ({_ostate(ob)})")
            self.cancel_ok[args["id"]] = clock
            self.sig.add(("cancel_ok", before.orders[args["id"]].amount_filled > 0))
            o = after.orders.get(args["id"])
            if o is None or o.is_open:
                self.v("C05", "cancel_succeeded_but_open", f"cancel_order({args['id']}) returned but the order is open")
        elif name == "create_loan":
            self.sig.add(("loan_granted",))
            self.totals_unchanged("create_loan", before, after)
            if self.lend is None:
                self.v("C10", "loan_without_lending", f"create_loan({_fmt(args)}) succeeded without a lending strategy")
            lo = result
            if lo.borrowed_amount != args["amount"] or lo.borrowed_symbol != args["symbol"] or not lo.is_open:
                self.v("C11", "loan_info_mismatch", f"create_loan({_fmt(args)}) returned {lo}")
            s = args["symbol"]
            if after.avail(s) + after.hold(s) - before.avail(s) - before.hold(s) != args["amount"] \
                    or after.borrowed(s) - before.borrowed(s) != args["amount"]:
                self.v("C01", "loan_principal_not_symmetric",
                       f"create_loan({_fmt(args)}): balance {before.bal.get(s)} -> {after.bal.get(s)}")
            await self.check_margin_after_grant(name, args, after)
        elif name == "repay_loan":
            if before.loans_stale or after.loans_stale:
                self.stats["repay_unchecked_stale_listing"] += 1
            else:
                self.check_repay(args["id"], before, after, loan_before_info)

    def totals_unchanged(self, name: str, before: Snap, after: Snap) -> None:
        closed = [i for i, lo in after.loans.items() if not lo.is_open and (i not in before.loans or before.loans[i].is_open)]
        if closed:
            return  # interest may have been paid (auto-repay on cancel); the ledger equation covers it
        for s in set(before.bal) | set(after.bal):
            if before.total(s) != after.total(s):
                self.v("C01", "total_changed_by_non_trade",
                       f"{name} changed total {s}: {before.total(s)} -> {after.total(s)}")

    # ---- C06: reservation formula ------------------------------------------------------------
    async def check_reservation(self, oid: str, R: Dict[str, D], before: Snap, after: Snap) -> None:
        from basana.core import errors as core_errors
        m = self.meta[oid]
        pname = m["pair"]
        b, qs = pname.split("/")
        bp, qp = self.pair_prec(pname)
        est = m["limit"] if m["limit"] is not None else m["stop"]
        if est is None:
            try:
                bid, ask = await self.e.get_bid_ask(self.pairs[pname])
                est = (bid + ask) / 2
            except core_errors.Error:
                est = None
        exp: Dict[str, D] = {}
        dont_care = False
        if est is not None:
            qa = q(m["amount"] * est, qp)
            if qa == 0:
                dont_care = True
            fee = ZERO
            if self.fee:
                fee = q(max(qa * self.fee[0] / 100, self.fee[1]), qp, decimal.ROUND_UP)
            if m["side"] == "buy":
                exp[qs] = qa + fee
            else:
                exp[b] = m["amount"]
                if fee > qa:
                    exp[qs] = fee - qa
        else:
            if m["side"] == "sell":
                exp[b] = m["amount"]
        exp = {k: v for k, v in exp.items() if v}
        self.stats["reservation_checks"] += 1
        if dont_care:
            self.stats["reservation_dont_care_zero_notional"] += 1
            return
        if exp != R:
            self.v("C06", "reservation_mismatch",
                   f"{m['kind']} {m['side']} {m['amount']} {pname} est={est}: hold changed by {R}, reference {exp}")
        # with borrowing disabled, acceptance implies the funds were available
        if not m["auto_borrow"]:
            for s, amt in exp.items():
                if before.avail(s) < amt:
                    self.v("C06", "accepted_without_funds",
                           f"order accepted with {before.avail(s)} {s} available, reservation {amt}")

    # ---- C10 -----------------------------------------------------------------------------
    async def check_margin_after_grant(self, name, args, after: Snap) -> None:
        eu = self.equity_and_used(after)
        if eu is None:
            self.stats["c10_unpriced"] += 1
            # a debt that cannot be valued cannot be shown to meet its requirement: granting it is not covered by
            # "only granted if, valued at the last prices, ..."
            for s, (a, h, b) in after.bal.items():
                c = self.cond(s)
                if b > 0 and c is not None and D(c["req"]) != 0 and self.price_in_quote(s, after) is None \
                        and any(self.loan_meta[i]["symbol"] == s for i in after.loans if i in self.loan_meta
                                and after.loans[i].is_open and self.loan_meta[i].get("via") == name
                                and self.loan_meta[i]["created"] == after.clock):
                    self.v("C10", "loan_granted_without_price",
                           f"{name}({_fmt(args)}) granted although {s} (requirement {c['req']}) has no price yet: the "
                           f"requirement cannot have been checked")
            return
        eq, used = eu
        self.stats["c10_grants_checked"] += 1
        if used > 0:
            self.stats["c10_grants_with_requirement"] += 1
            ratio = eq / used
            bucket = "lt1" if ratio < 1 else "1-1.01" if ratio < F(101, 100) else "1.01-2" if ratio < 2 else "gt2"
            self.sig.add(("grant", name, bucket))
            if ratio < F(101, 100):
                self.stats["c10_grants_near_boundary"] += 1
        if eq < used * (1 - F(1, 10 ** 20)):
            mech = "zero_equity_loan_granted" if eq == 0 else ""
            self.v("C10", "loan_granted_below_requirement",
                   f"{name}({_fmt(args)}) granted with equity {float(eq):.8g} < required {float(used):.8g} "
                   f"(balances {after.bal})", mechanism=mech)

    # ---- C11 repay ------------------------------------------------------------------------
    def check_repay(self, lid: str, before: Snap, after: Snap, info_before) -> None:
        lo = after.loans.get(lid)
        if info_before is None or lo is None:
            self.v("C11", "repay_unknown_loan_succeeded", f"repay_loan({lid}) succeeded for an unknown loan")
            return
        if not info_before.is_open:
            self.v("C11", "repay_closed_loan_succeeded", f"repay_loan({lid}) succeeded on a closed loan")
            return
        self.sig.add(("repay_ok", any(info_before.outstanding_interest.values())))
        interest = {k: v for k, v in info_before.outstanding_interest.items() if v}
        if lo.is_open:
            self.v("C11", "repay_left_loan_open", f"repay_loan({lid}) returned but the loan is open")
        if {k: v for k, v in lo.paid_interest.items() if v} != interest:
            self.v("C11", "paid_interest_mismatch", f"paid {lo.paid_interest} outstanding before {interest}")
        s = info_before.borrowed_symbol
        exp_bal = collections.defaultdict(D)
        exp_bal[s] -= info_before.borrowed_amount
        for k, val in interest.items():
            exp_bal[k] -= val
        for sym in set(before.bal) | set(after.bal) | set(exp_bal):
            d_bal = (after.avail(sym) + after.hold(sym)) - (before.avail(sym) + before.hold(sym))
            if d_bal != exp_bal.get(sym, ZERO):
                self.v("C11", "repay_debit_mismatch",
                       f"repay {info_before.borrowed_amount} {s} + interest {interest}: {sym} balance changed by {d_bal}")
            d_bor = after.borrowed(sym) - before.borrowed(sym)
            if d_bor != (-info_before.borrowed_amount if sym == s else ZERO):
                self.v("C11", "repay_borrowed_mismatch", f"{sym} borrowed changed by {d_bor}")
        self.stats["repay_checked"] += 1
        if interest:
            self.stats["repay_with_interest"] += 1

    # ------------------------------------------------------------------------------------
    async def post_sniffer(self, ev) -> None:
        from basana.core import bar
        primary = None
        if isinstance(ev, bar.BarEvent):
            if id(ev) not in self.first_sight:
                self.first_sight.add(id(ev))
                pname = f"{ev.bar.pair.base_symbol}/{ev.bar.pair.quote_symbol}"
                primary = (pname, ev.when)
        await self.snapshot(("event", type(ev).__name__, primary))

    async def on_order_event(self, ev) -> None:
        try:
            self._on_order_event(ev)
        except Exception as ex:
            self.anomalies.append(f"monitor failure in order event: {type(ex).__name__}: {ex}")
            self.stats["monitor_failures"] += 1
        n = self.n_order_events
        self.n_order_events += 1
        if self.d.now_available and ev.when != self.d.now():
            # an order event produced by a scheduled job is delivered together with the *next* primary events, with
            # the clock already advanced (outside the quantifier of the exsim properties): observe it, do not act on it
            self.stats["stale_order_events_not_acted_on"] += 1
            return
        for a in self.sc.get("on_order_event", []):
            if a["nth_event"] == n:
                await self.do(a["action"], ctx_order=ev.order.id)

    async def on_order_event_2(self, ev) -> None:
        self.events2.append((ev.when, ev.order.id, _ostate(ev.order)))

    def _on_order_event(self, ev) -> None:
        self.events1.append((ev.when, ev.order.id, _ostate(ev.order)))
        oi = ev.order
        oid = oi.id
        self.events[oid].append((ev.when, oi))
        self.stats["order_events"] += 1
        m = self.meta.get(oid)
        if m is None:
            self.v("C05", "event_for_unknown_order", f"order event for {oid} which no request created")
            return
        pf = self.last_ev[oid]
        fee = sum(oi.fees.values(), ZERO)
        db, dq, df = oi.amount_filled - pf[0], oi.quote_amount_filled - pf[1], fee - pf[2]
        self.last_ev[oid] = (oi.amount_filled, oi.quote_amount_filled, fee)
        pname = m["pair"]
        b, qs = pname.split("/")
        bp, qp = self.pair_prec(pname)
        buy = m["side"] == "buy"
        if db < 0 or dq < 0 or df < 0:
            self.v("C05", "event_amount_decreased", f"{oid}: deltas {db} {dq} {df}")
        if db > 0:
            self.stats["fills"] += 1
            if self.prev is not None and oi.amount_filled < oi.amount:
                self.stats["partial_fills"] += 1
            self.check_fill(oid, m, ev.when, db, dq, df, oi)
            lf = self.last_fees.get(oid, {})
            dfee = {k: val - lf.get(k, ZERO) for k, val in oi.fees.items()}
            net = {b: (db if buy else -db) - dfee.get(b, ZERO), qs: (-dq if buy else dq) - dfee.get(qs, ZERO)}
            for sym, n in net.items():
                if n < 0 and sym in self.rem.get(oid, {}):
                    self.rem[oid][sym] = max(ZERO, self.rem[oid][sym] + n)
        elif dq != 0 or df != 0:
            self.v("C04", "quote_or_fee_without_base", f"{oid}: base delta 0 but quote {dq} fee {df}")
        self.last_fees[oid] = dict(oi.fees)
        if not oi.is_open:
            self.rem[oid] = {}

    # ---- per-fill checks: C03-lite, C04, C08 ------------------------------------------------
    def check_fill(self, oid, m, when, db: D, dq: D, df: D, oi) -> None:
        second = self.barmap2.get((m["pair"], when))
        if second is None:
            return self._check_fill(oid, m, when, db, dq, df, oi, None)
        # two bars of the pair close at this instant: the fill belongs to one of them
        saved = (len(self.viol), collections.Counter(self._viol_count), collections.Counter(self.stats))
        self._check_fill(oid, m, when, db, dq, df, oi, None)
        if len(self.viol) > saved[0] or any(self.stats[k] != saved[2][k] for k in self.stats if k.startswith("viol_")):
            first_try = (self.viol[saved[0]:], collections.Counter(self._viol_count), collections.Counter(self.stats))
            del self.viol[saved[0]:]
            self._viol_count, self.stats = collections.Counter(saved[1]), collections.Counter(saved[2])
            self._check_fill(oid, m, when, db, dq, df, oi, second)
            if len(self.viol) > saved[0]:
                # neither bar explains the fill: report what the first one said
                del self.viol[saved[0]:]
                self.viol.extend(first_try[0])
                self._viol_count, self.stats = first_try[1], first_try[2]

    def _check_fill(self, oid, m, when, db: D, dq: D, df: D, oi, bar_override) -> None:
        pname = m["pair"]
        bp, qp = self.pair_prec(pname)
        tol = unit(qp) / 2
        kind = m["kind"]
        buy = m["side"] == "buy"
        bar = bar_override if bar_override is not None else self.barmap.get((pname, when))
        self.stats["fill_checks"] += 1
        if m["t"] is not None and when <= m["t"]:
            self.v("C03", "fill_not_after_submission", f"{kind} order submitted at {m['t']} filled at {when}")
        if bar is None:
            self.v("C04", "fill_without_bar", f"fill at {when} but {pname} has no bar with that time")
            return
        o_, h, low, c, vol = bar
        tag = f"{kind} {m['side']} {m['amount']} {pname} limit={m['limit']} stop={m['stop']} fill {db} for {dq} in bar O{o_} H{h} L{low} C{c} V{vol}"
        mech = ""
        if self.liq is not None and vol * self.liq[0] / 100 != q(vol * self.liq[0] / 100, bp, decimal.ROUND_DOWN):
            mech = "base_truncated_after_quote"   # classifier input for the known C04 mechanism
        if buy and dq < low * db - tol:
            self.v("C04", "buy_below_low", tag)
        if not buy and dq > h * db + tol:
            self.v("C04", "sell_above_high", tag, mechanism=mech)
        if m["limit"] is not None:
            if buy and dq > m["limit"] * db + tol:
                self.v("C04", "buy_above_limit", tag, mechanism=mech)
            if not buy and dq < m["limit"] * db - tol:
                self.v("C04", "sell_below_limit", tag)
            if (buy and low > m["limit"]) or (not buy and h < m["limit"]):
                self.v("C04", "limit_not_reached_by_bar", tag)
        if m["stop"] is not None:
            reached = False
            history = list(self.bars_by_pair[pname]) + [b2[:6] for b2 in self.bars2_by_pair.get(pname, [])]
            for (bw, bo, bh, bl, bc, bv) in sorted(history, key=lambda x: x[0]):
                if m["t"] is not None and bw <= m["t"]:
                    continue
                if bw > when:
                    break
                if (buy and bh >= m["stop"]) or (not buy and bl <= m["stop"]):
                    reached = True
                    break
            if not reached:
                self.v("C04", "stop_not_reached_before_fill", tag)
        if kind in ("market", "stop"):
            if dq > h * db + tol or dq < low * db - tol:
                self.v("C04", "outside_bar_range", tag, mechanism=mech)
            ref = o_ if kind == "market" else m["stop"]
            if buy and dq < ref * db - tol:
                self.v("C04", "better_than_reference", tag)
            if not buy and dq > ref * db + tol:
                self.v("C04", "better_than_reference", tag, mechanism=mech)
            if oi.amount_filled != oi.amount:
                self.v("C05", "partial_fill_of_market_or_stop", tag)
        # C08 grid of the fill itself (fees per symbol, each on its own symbol's grid)
        b_, q_ = pname.split("/")
        fees_ok = all(val == q(val, qp if sym == q_ else bp if sym == b_ else self.symbols.get(sym, qp), decimal.ROUND_DOWN)
                      for sym, val in oi.fees.items())
        if db != q(db, bp, decimal.ROUND_DOWN) or dq != q(dq, qp, decimal.ROUND_DOWN) or not fees_ok:
            self.v("C08", "fill_off_grid", f"{tag} fees {oi.fees}: not multiples of 1e-{bp} / 1e-{qp}")
        self.sig.add(("fill", kind, m["side"], "partial" if oi.amount_filled < oi.amount else "full",
                      "at_open" if dq == q(o_ * db, qp) else "at_limit" if m["limit"] is not None and dq == q(m["limit"] * db, qp)
                      else "other"))

    # ------------------------------------------------------------------------------------
    def check_snapshot(self, snap: Snap, interval: tuple) -> None:
        prev = self.prev
        where = interval[0] + (":" + str(interval[1]) if len(interval) > 1 else "")
        # ---- C02 / C08 balances
        open_principal: Dict[str, D] = collections.defaultdict(D)
        for lo in snap.loans.values():
            if lo.is_open:
                open_principal[lo.borrowed_symbol] += lo.borrowed_amount
        for s in set(snap.bal) | set(open_principal):
            a, h, b = snap.bal.get(s, (ZERO, ZERO, ZERO))
            if a < 0 or h < 0 or b < 0:
                self.v("C02", "negative_balance", f"{s}: available {a} hold {h} borrowed {b} at {where}")
            debt0 = self.opening_debt.get(s, ZERO)
            if b != open_principal.get(s, ZERO) + debt0 and not snap.loans_stale:
                self.v("C02", "borrowed_ne_open_principal",
                       f"{s}: borrowed {b} but open loans sum to {open_principal.get(s, ZERO)}"
                       f"{' plus the opening debt of ' + str(debt0) if debt0 else ''} at {where}")
            elif debt0 and not snap.loans_stale and not self.stats["opening_debt_reported"]:
                # the literal statement (borrowed == open principal) fails for the part the account was opened with
                self.stats["opening_debt_reported"] += 1
                self.v("C02", "borrowed_ne_open_principal",
                       f"{s}: account opened with initial balance {-debt0}: borrowed {b} but open loans sum to "
                       f"{open_principal.get(s, ZERO)} at {where} (no loan stands for the opening debt; it can never be repaid)",
                       mechanism="opening_debt_has_no_loan")
            p = self.grid(s)
            if p is not None and not self.offgrid_loans:
                for nm, val in (("available", a), ("hold", h), ("borrowed", b)):
                    if val != q(val, p, decimal.ROUND_DOWN):
                        self.v("C08", "balance_off_grid", f"{s} {nm} {val} is not a multiple of 1e-{p} at {where}")
        self.stats["balance_checks"] += 1
        # ---- C01 ledger
        exp: Dict[str, D] = collections.defaultdict(D)
        for s, val in self.init.items():
            exp[s] += val
        for oid, o in snap.orders.items():
            m = self.meta.get(oid)
            if m is None:
                continue
            b, qs = m["pair"].split("/")
            sg = 1 if m["side"] == "buy" else -1
            exp[b] += sg * o.amount_filled
            exp[qs] -= sg * o.quote_amount_filled
            for k, val in o.fees.items():
                exp[k] -= val
            # ---- C09 closed form
            self.check_fees(oid, m, o)
            # ---- C05 basic state invariants
            if o.amount_filled > o.amount or o.amount_filled < 0:
                self.v("C05", "overfill", f"{oid}: filled {o.amount_filled} of {o.amount}")
            if o.amount_filled + o.amount_remaining != o.amount:
                self.v("C05", "filled_plus_remaining", f"{oid}: {o.amount_filled}+{o.amount_remaining}!={o.amount}")
            if m["kind"] in ("market", "stop") and 0 < o.amount_filled < o.amount:
                self.v("C05", "partial_fill_of_market_or_stop", f"{oid}: {m['kind']} filled {o.amount_filled}/{o.amount}")
            if o.is_open and o.amount_filled >= o.amount:
                self.v("C05", "filled_but_open", f"{oid}: completely filled but still open")
            st = _ostate(o)
            seq = self.polled[oid]
            if not seq or seq[-1] != st:
                if seq:
                    self.check_transition(oid, m, seq[-1], st, snap, interval)
                seq.append(st)
        for lo in snap.loans.values():
            for k, val in lo.paid_interest.items():
                exp[k] -= val
        for s in set(exp) | set(snap.bal):
            if snap.loans_stale:
                self.stats["ledger_unchecked_stale_loan_listing"] += 1
                break      # the interest paid so far is unknown while get_loans() raises
            if snap.total(s) != exp[s]:
                self.v("C01", "ledger_mismatch",
                       f"{s}: total {snap.total(s)} but initial+fills-fees-interest = {exp[s]} at {where}")
        self.stats["ledger_checks"] += 1
        # ---- C05: open listing equals shadow set
        exp_open = sorted(i for i, o in snap.orders.items() if o.is_open)
        if sorted(snap.open_ids) != exp_open:
            self.v("C05", "open_listing_mismatch",
                   f"get_open_orders() has {len(snap.open_ids)} ids, {len(exp_open)} orders are open at {where}")
        if len(snap.orders) != len(self.order_seq):
            self.v("C05", "orders_listing_mismatch", f"{len(snap.orders)} orders listed, {len(self.order_seq)} accepted")
        # ---- C06: holds
        if not exp_open or not snap.open_ids:
            # (either view of "open": the states listed by get_orders() or the listing of get_open_orders())
            for s, (a, h, b) in snap.bal.items():
                if h != 0:
                    self.v("C06", "hold_without_open_order",
                           f"{s}: {h} on hold but no order is open at {where}"
                           f"{'' if not exp_open else ' according to get_open_orders() (' + str(len(exp_open)) + ' open by state)'}",
                           mechanism=self._classify_stuck_hold(snap))
        in_sync = all(
            self.events[i] and _ostate(self.events[i][-1][1]) == _ostate(o)
            for i, o in snap.orders.items() if i in self.meta
        )
        if in_sync:
            self.stats["shadow_hold_checks"] += 1
            exp_hold: Dict[str, D] = collections.defaultdict(D)
            for i in exp_open:
                for s, val in self.rem.get(i, {}).items():
                    exp_hold[s] += val
            for s in set(exp_hold) | set(snap.bal):
                if snap.hold(s) < exp_hold.get(s, ZERO):
                    # C02, "refused instead": what is reserved for the open orders is gone, i.e. some fill was paid
                    # with funds the account had set aside for another order instead of being refused
                    self.v("C02", "fill_paid_with_funds_reserved_for_other_orders",
                           f"{s}: only {snap.hold(s)} left on hold while the open orders' remaining reservations sum to "
                           f"{exp_hold.get(s, ZERO)} at {where}")
                if snap.hold(s) != exp_hold.get(s, ZERO):
                    self.v("C06", "hold_ne_open_reservations",
                           f"{s}: {snap.hold(s)} on hold, open orders' remaining reservations sum to "
                           f"{exp_hold.get(s, ZERO)} at {where}", mechanism=self._classify_stuck_hold(snap))
                    break
        else:
            # the event log lags behind the polled states (e.g. the exchange failed between booking a fill and
            # reporting it): a floor of every open order's remaining reservation still follows from the polled state
            # alone - the initial reservation minus everything the order has spent so far
            self.stats["shadow_hold_floor_checks"] += 1
            floor: Dict[str, D] = collections.defaultdict(D)
            for i in exp_open:
                m = self.meta.get(i)
                o = snap.orders[i]
                if m is None or not m.get("R"):
                    continue
                b_, q_ = m["pair"].split("/")
                if m["side"] == "buy" and q_ in m["R"]:
                    floor[q_] += max(ZERO, m["R"][q_] - o.quote_amount_filled - o.fees.get(q_, ZERO))
                elif m["side"] == "sell" and b_ in m["R"]:
                    floor[b_] += max(ZERO, m["R"][b_] - o.amount_filled - o.fees.get(b_, ZERO))
            for s, val in floor.items():
                if snap.hold(s) < val:
                    self.v("C02", "fill_paid_with_funds_reserved_for_other_orders",
                           f"{s}: only {snap.hold(s)} left on hold while the open orders' reservations minus what they "
                           f"have spent sum to at least {val} at {where}")
        # ---- the price the exchange works with (estimates, margin valuation) is the close of the pair's last bar,
        # whatever that bar's volume: the bar of this very clock value may or may not have been seen yet
        if snap.clock is not None:
            for pname, px in snap.prices.items():
                le = lt = None
                for bar in self.bars_by_pair.get(pname, []):
                    if bar[0] <= snap.clock:
                        le = bar[4]
                        if bar[0] < snap.clock:
                            lt = bar[4]
                    else:
                        break
                self.stats["price_checks"] += 1
                if pname in self.bars2_by_pair:
                    continue        # two feeds: either feed's last close may be the current one (same closes by construction)
                if le is not None and px not in (le, lt):
                    for prop in ("C10", "C06"):
                        self.v(prop, "price_is_not_the_last_close",
                               f"{pname}: the exchange quotes {px} at {snap.clock} but the last bar closed at {le}"
                               f"{' (the one before at ' + str(lt) + ')' if lt is not None and lt != le else ''}")
        # ---- C11: loans
        if not snap.loans_stale and not (self.prev is not None and self.prev.loans_stale):
            self.check_loans(snap, interval)

    def _classify_stuck_hold(self, snap: Snap) -> str:
        # known mechanism (C06): an order was closed while the margin rule rejected the hold release
        for a in self.anomalies[-5:]:
            if "Margin level too low" in a:
                return "margin_rule_on_non_borrowing_update"
        return ""

    def check_fees(self, oid, m, o) -> None:
        b, qs = m["pair"].split("/")
        qp = self.pair_prec(m["pair"])[1]
        # the precision in force when the traded amount last changed (a symbol's precision may be refined mid-run)
        rec = self.fee_prec.get(oid)
        if rec is None or rec[0] != o.quote_amount_filled:
            rec = self.fee_prec[oid] = (o.quote_amount_filled, qp)
        if rec[1] != qp:
            self.stats["fee_checks_at_earlier_precision"] += 1
        qp = rec[1]
        self.stats["fee_checks"] += 1
        if self.fee and o.quote_amount_filled > 0:
            f = q(max(o.quote_amount_filled * self.fee[0] / 100, self.fee[1]), qp, decimal.ROUND_UP)
            got = {k: val for k, val in o.fees.items() if val}
            expf = {qs: f} if f else {}
            if got != expf:
                self.v("C09", "fee_mismatch",
                       f"{m['kind']} {m['side']} traded quote {o.quote_amount_filled}: fees {got}, reference {expf} "
                       f"(pct {self.fee[0]} min {self.fee[1]} precision {qp})")
        else:
            if any(o.fees.values()) and not self.sc.get("base_fee_pct"):
                self.v("C09", "fee_without_trade_or_scheme", f"{oid}: fees {o.fees} quote filled {o.quote_amount_filled}")
        if any(val < 0 for val in o.fees.values()):
            self.v("C09", "negative_fee", f"{oid}: {o.fees}")

    def check_transition(self, oid, m, old: tuple, new: tuple, snap: Snap, interval: tuple) -> None:
        """C05: polled order state may only move forward, and may close only for a legitimate cause."""
        if not old[3]:
            self.v("C05", "closed_order_changed", f"{oid}: {old} -> {new}")
            return
        if new[0] < old[0] or new[1] < old[1]:
            self.v("C05", "filled_amount_decreased", f"{oid}: {old} -> {new}")
        if old[3] and not new[3]:
            o = snap.orders[oid]
            cause = None
            if o.amount_filled == o.amount:
                cause = "filled"
            elif interval[0] == "call-ok" and interval[1] == "cancel_order" and interval[2]["id"] == oid:
                cause = "cancelled"
            elif interval[0] == "call-raised" and interval[1] == "cancel_order" and interval[2]["id"] == oid:
                cause = "cancel_raised"   # C07's business; do not double report here
            elif m["kind"] in ("market", "stop") and interval[0] not in ("call-ok", "call-raised"):
                cause = "fill_or_kill"
            if cause is None:
                self.v("C05", "closed_without_cause",
                       f"{m['kind']} order {oid} closed with {o.amount_filled}/{o.amount} filled during {interval[:2]}")
            else:
                self.sig.add(("closed", m["kind"], cause, m["auto_repay"]))
                self.stats[f"closed_{cause}"] += 1
            self.poll_closed_at[oid] = snap.clock

    # ---- C11: interest reference, closure causes, greedy auto-repay -----------------------------
    def check_loans(self, snap: Snap, interval: tuple) -> None:
        if not snap.loans:
            return
        prev = self.prev
        # interest reference
        for lid, lo in snap.loans.items():
            meta = self.loan_meta.get(lid)
            if meta is None:
                # created inside this very call (auto-borrow); registered by on_accepted/on_rejected right after
                continue
            c = meta.get("cond") or self.cond(lo.borrowed_symbol)
            if c is None:
                continue
            isym = c["interest_symbol"]
            if not lo.is_open:
                if any(lo.outstanding_interest.values()):
                    self.v("C11", "closed_loan_accrues", f"{lid}: closed but outstanding {lo.outstanding_interest}")
                continue
            if snap.clock is None or meta["created"] is None:
                continue
            got = lo.outstanding_interest.get(isym, ZERO)
            if any(k != isym and val for k, val in lo.outstanding_interest.items()):
                self.v("C11", "interest_in_wrong_symbol", f"{lid}: {lo.outstanding_interest}, configured {isym}")
            ref = self.interest_reference(lo, c, meta["created"], snap)
            self.stats["interest_checks"] += 1
            if ref is None:
                self.stats["interest_unpriced"] += 1
            else:
                lo_t, hi_t = ref
                if got > 0:
                    self.stats["interest_positive"] += 1
                if not (lo_t <= got <= hi_t):
                    self.v("C11", "interest_mismatch",
                           f"loan {lo.borrowed_amount} {lo.borrowed_symbol} after {snap.clock - meta['created']} "
                           f"({c}): outstanding {got} {isym}, reference [{lo_t}, {hi_t}]")
            if got < 0 or got < D(c["min"]):
                self.v("C11", "interest_below_minimum", f"{lid}: {got} < min {c['min']}")
            # monotone while the conversion price is unchanged / symbols coincide
            seen = self.interest_seen.get(lid)
            price_key = None if isym == lo.borrowed_symbol else self.convert_price(snap, lo.borrowed_symbol, isym)
            if seen is not None and seen[2] == price_key and snap.clock >= seen[0] and got < seen[1]:
                self.v("C11", "interest_decreased", f"{lid}: {seen[1]} at {seen[0]} then {got} at {snap.clock}")
            self.interest_seen[lid] = (snap.clock, got, price_key)
        # closure causes
        if prev is None:
            return
        # greedy rule: exactly one order changed in the interval and it is an auto-repay order that closed (also when
        # no loan was closed at all: an auto-repay order that traded and closed must repay what it can afford)
        changed = [i for i, o in snap.orders.items() if i in prev.orders and _ostate(o) != _ostate(prev.orders[i])]
        new_orders = [i for i in snap.orders if i not in prev.orders]
        if len(changed) == 1 and not new_orders and changed[0] in self.meta:
            self.check_greedy(changed[0], prev, snap, interval)
        closed_now = [i for i, lo in snap.loans.items() if not lo.is_open and i in prev.loans and prev.loans[i].is_open]
        if not closed_now:
            return
        orders_closed = [i for i, o in snap.orders.items()
                         if not o.is_open and i in prev.orders and prev.orders[i].is_open and i in self.meta]
        for lid in closed_now:
            lo = snap.loans[lid]
            ok = False
            why = ""
            if interval[0] == "call-ok" and interval[1] == "repay_loan" and interval[2]["id"] == lid:
                ok, why = True, "repay_loan"
            else:
                for oid in orders_closed:
                    m = self.meta[oid]
                    o = snap.orders[oid]
                    b, qs = m["pair"].split("/")
                    acquired = b if m["side"] == "buy" else qs
                    if m["auto_repay"] and o.amount_filled > 0 and acquired == lo.borrowed_symbol:
                        ok, why = True, "auto_repay"
                        break
            if ok:
                self.stats[f"loan_closed_by_{why}"] += 1
                self.sig.add(("loan_closed", why))
            else:
                self.v("C11", "loan_closed_without_cause",
                       f"loan {lid} ({lo.borrowed_amount} {lo.borrowed_symbol}) closed during {interval[:2]} "
                       f"(orders closed in the interval: {[(self.meta[i]['kind'], self.meta[i]['auto_repay']) for i in orders_closed]})")

    def check_greedy(self, oid: str, prev: Snap, snap: Snap, interval: tuple) -> None:
        m = self.meta[oid]
        o, o0 = snap.orders[oid], prev.orders[oid]
        if o.is_open or not m["auto_repay"] or o.amount_filled == 0:
            return
        if interval[0] == "call-ok" and interval[1] == "repay_loan":
            return
        b, qs = m["pair"].split("/")
        buy = m["side"] == "buy"
        acquired = b if buy else qs
        cands = [lo for i, lo in prev.loans.items() if lo.is_open and lo.borrowed_symbol == acquired]
        if not cands:
            return
        amts = sorted(lo.borrowed_amount for lo in cands)
        if len(set(amts)) != len(amts):
            self.stats["greedy_skipped_ties"] += 1
            return
        # balances right before the repayment loop: prev balance + this order's fill delta; holds as after closure
        bal = {s: prev.avail(s) + prev.hold(s) for s in set(prev.bal) | set(snap.bal)}
        db = o.amount_filled - o0.amount_filled
        dq = o.quote_amount_filled - o0.quote_amount_filled
        dfee = {k: o.fees.get(k, ZERO) - o0.fees.get(k, ZERO) for k in o.fees}
        bal[b] = bal.get(b, ZERO) + (db if buy else -db)
        bal[qs] = bal.get(qs, ZERO) + (-dq if buy else dq)
        for k, val in dfee.items():
            bal[k] = bal.get(k, ZERO) - val
        avail = {s: val - snap.hold(s) for s, val in bal.items()}
        exp_closed = []
        for lo in sorted(cands, key=lambda x: x.borrowed_amount, reverse=True):
            after = snap.loans[lo.id]
            interest = after.paid_interest if not after.is_open else after.outstanding_interest
            need: Dict[str, D] = collections.defaultdict(D)
            need[lo.borrowed_symbol] += lo.borrowed_amount
            for k, val in interest.items():
                need[k] += val
            if all(avail.get(s, ZERO) >= val for s, val in need.items()):
                exp_closed.append(lo.id)
                for s, val in need.items():
                    avail[s] = avail.get(s, ZERO) - val
        got_closed = [lo.id for lo in cands if not snap.loans[lo.id].is_open]
        self.stats["greedy_checks"] += 1
        self.sig.add(("greedy", len(cands), len(exp_closed)))
        if sorted(got_closed) != sorted(exp_closed):
            self.v("C11", "auto_repay_not_greedy",
                   f"auto-repay {m['kind']} {m['side']} closed with {o.amount_filled} filled; open {acquired} loans "
                   f"{[str(lo.borrowed_amount) for lo in cands]}; repaid "
                   f"{[str(snap.loans[i].borrowed_amount) for i in got_closed]}, largest-first-as-funds-allow gives "
                   f"{[str(snap.loans[i].borrowed_amount) for i in exp_closed]}",
                   mechanism=self._classify_survivor() if len(got_closed) < len(exp_closed) else "")

    def _last_close_key(self, a: str, b: str, clock) -> Any:
        for pname, inv in ((f"{a}/{b}", False), (f"{b}/{a}", True)):
            lst = self.bars_by_pair.get(pname)
            if lst:
                last = None
                for bar in lst:
                    if bar[0] <= clock:
                        last = bar
                    else:
                        break
                return (pname, last[0] if last else None)
        return None

    def interest_reference(self, lo, c, created, snap: Snap) -> Optional[Tuple[D, D]]:
        now = snap.clock
        pct, period, mn = F(D(c["pct"])), c["period_s"], F(D(c["min"]))
        base = pct / 100 * F(lo.borrowed_amount)
        if period:
            el = now - created
            el_us = el.days * 86400 * 10 ** 6 + el.seconds * 10 ** 6 + el.microseconds
            base *= F(el_us, 10 ** 6) / F(period)
        isym = c["interest_symbol"]
        if isym != lo.borrowed_symbol and base != 0:
            # conversion at the last close the exchange has seen for the pair at this clock. Primary bars of the
            # current clock may or may not have been processed yet, so accept either candidate.
            px0 = self.convert_price(snap, lo.borrowed_symbol, isym)
            if px0 is None:
                return None
            cands = [px0]
        else:
            cands = [F(1)]
        p = self.symbols[isym]
        los, his = [], []
        for px in cands:
            val = base * px
            lo_v, hi_v = val * (1 - F(1, 10 ** 12)), val * (1 + F(1, 10 ** 12))
            with decimal.localcontext() as ctx:
                ctx.prec = 80
                def tr(x: F) -> D:
                    x = max(x, mn)
                    return q(D(x.numerator) / D(x.denominator), p, decimal.ROUND_DOWN)
                los.append(tr(lo_v))
                his.append(tr(hi_v))
        return min(los), max(his)

    def _conversion_candidates(self, a: str, b: str, clock) -> List[F]:
        out = []
        for pname, inv in ((f"{a}/{b}", False), (f"{b}/{a}", True)):
            lst = self.bars_by_pair.get(pname)
            if not lst:
                continue
            last_lt = None
            at = None
            for bar in lst:
                if bar[0] < clock:
                    last_lt = bar
                elif bar[0] == clock:
                    at = bar
                else:
                    break
            for bar in (last_lt, at):
                if bar is not None and bar[4] != 0:
                    out.append(1 / F(bar[4]) if inv else F(bar[4]))
            if out:
                break
        return out

    # ------------------------------------------------------------------------------------
    def final(self) -> None:
        """Offline checkers over the recorded logs (events per order, polled state sequences)."""
        end = self.prev
        assert end is not None
        if self.polling:
            self.stats["polling_runs"] += 1
            if self.events1 or self.events2:
                self.v("C05", "event_without_subscription", "order events delivered although nobody subscribed")
            return
        if self.events1 != self.events2:
            self.v("C05", "subscribers_see_different_events",
                   f"first subscriber got {len(self.events1)} order events, second {len(self.events2)} (or in another order)")
        # C05: event sequence == polled distinct-state sequence; acceptance first; time order; last == final
        for oid in self.order_seq:
            m = self.meta[oid]
            evs = self.events.get(oid, [])
            final = end.orders.get(oid)
            if final is None:
                self.v("C05", "order_disappeared", f"{oid} is no longer listed")
                continue
            if not evs:
                self.v("C05", "no_events_for_order", f"{m['kind']} order {oid} produced no order event")
                continue
            first = evs[0][1]
            if first.amount_filled != 0 or not first.is_open:
                self.v("C05", "first_event_not_acceptance", f"{oid}: first event {_ostate(first)}")
            if m["t"] is not None and evs[0][0] != m["t"]:
                self.v("C05", "acceptance_event_time", f"{oid}: accepted at {m['t']} event stamped {evs[0][0]}")
            if any(a[0] > b[0] for a, b in zip(evs, evs[1:])):
                self.v("C05", "events_out_of_time_order", f"{oid}: {[str(e[0]) for e in evs]}")
            es = [_ostate(x) for _, x in evs]
            if any(a == b for a, b in zip(es, es[1:])):
                self.v("C05", "duplicate_event", f"{oid}: {es}")
            two_feeds = m["pair"] in self.bars2_by_pair
            if two_feeds:
                # two bars of the pair are matched within one dispatch pass: the states between them are reported by events
                # but cannot be polled - the polled sequence is then a subsequence with the same ends
                it = iter(es)
                sub_ok = all(any(x == y for y in it) for x in self.polled[oid]) and es[:1] == self.polled[oid][:1] \
                    and es[-1:] == self.polled[oid][-1:]
            if (not two_feeds and es != self.polled[oid]) or (two_feeds and not sub_ok):
                self.v("C05", "events_ne_state_sequence",
                       f"{m['kind']} {oid}: events {es} but polled states {self.polled[oid]}",
                       mechanism=self._classify_survivor())
            if _oi_key(evs[-1][1]) != _oi_key(final):
                self.v("C05", "last_event_ne_final_state", f"{oid}: last event {_ostate(evs[-1][1])} final {_ostate(final)}",
                       mechanism=self._classify_survivor())
            self.stats["event_sequences_checked"] += 1
            if not final.is_open:
                # closed order: cancelling must fail (checked through scripted cancels of closed orders: C07 path)
                pass
        self.check_bars_offline(end)

    def check_bars_offline(self, end: Snap) -> None:
        """C08 liquidity walk, C05 fill-or-kill deadline, C04 completeness - per (pair, bar), from the event log."""
        ample = self.sc.get("class") in ("ample", "micro_c04", "micro_c04c")
        for a in self.anomalies:
            if "Not enough liquidity" in a:
                self.v("C08", "liquidity_overdrawn_inside_exchange",
                       f"the liquidity model refused an amount the order manager had already booked: {a[:160]}")
                break
        fills: Dict[Tuple[str, Any], Dict[str, D]] = collections.defaultdict(dict)
        close_when: Dict[str, Any] = {}
        for oid, evs in self.events.items():
            m = self.meta.get(oid)
            if m is None:
                continue
            prev_f = ZERO
            for when, oi in evs:
                d = oi.amount_filled - prev_f
                prev_f = oi.amount_filled
                if d > 0:
                    fills[(m["pair"], when)][oid] = fills[(m["pair"], when)].get(oid, ZERO) + d
                if not oi.is_open and oid not in close_when:
                    close_when[oid] = when
        doomed: Dict[str, str] = {}
        for pname, lst in self.bars_by_pair.items():
            bp, qp = self.pair_prec(pname)
            orders = [i for i in self.order_seq if self.meta[i]["pair"] == pname]
            for (when, o_, h, low, c, vol) in lst:
                b2 = self.barmap2.get((pname, when))
                if b2 is not None:
                    # a second bar of the pair closes at the same instant: together they reach whatever either reaches
                    h, low = max(h, b2[1]), min(low, b2[2])
                live = [i for i in orders if self.meta[i]["t"] is not None and self.meta[i]["t"] < when
                        and (i not in close_when or close_when[i] >= when)]
                f = fills.get((pname, when), {})
                for i in f:
                    if i not in live:
                        self.v("C03", "fill_not_after_submission",
                               f"order {i} accepted at {self.meta[i]['t']} filled by the bar of {when}")
                total = sum(f.values(), ZERO)
                if self.liq is not None and pname not in self.bars2_by_pair:
                    L = vol * self.liq[0] / 100
                    self.stats["liquidity_bars_checked"] += 1
                    if total > L:
                        self.v("C08", "liquidity_exceeded", f"{pname} bar {when}: filled {total} > {L} ({self.liq[0]}% of {vol})")
                    rem = L
                    released: Dict[str, D] = collections.defaultdict(D)   # holds freed by orders killed earlier in this bar
                    for i, got_i in f.items():
                        if i in doomed and got_i > 0:
                            self.v("C08", "all_or_nothing_order_filled_after_insufficient_bar",
                                   f"{self.meta[i]['kind']} order needed more than the liquidity left in its first bar "
                                   f"({doomed[i]}) yet was filled {got_i} by the bar of {when}")
                    for i in live:
                        m = self.meta[i]
                        got = f.get(i, ZERO)
                        filled_before = ZERO
                        for w2, oi in self.events[i]:
                            if w2 < when:
                                filled_before = oi.amount_filled
                        pending = m["amount"] - filled_before
                        if m["kind"] in ("market", "stop") and pending > rem and got > 0:
                            self.v("C08", "all_or_nothing_order_filled_beyond_liquidity",
                                   f"{m['kind']} needing {pending} filled {got} with only {rem} left in bar {when}")
                        if got > 0 and len(live) > 1:
                            self.sig.add(("competing", min(len(live), 6), got < pending))
                        if m["kind"] in ("market", "stop") and pending > rem and i not in doomed and filled_before == 0:
                            doomed[i] = f"bar {when}: needed {pending}, {rem} left"
                        triggered = m["kind"] == "market" or (m["kind"] == "stop" and (
                            (m["side"] == "buy" and h >= m["stop"]) or (m["side"] == "sell" and low <= m["stop"])))
                        if triggered and got == 0 and 0 < pending <= rem:
                            self.check_fits_but_unfilled(i, m, pname, when, (o_, h, low, c, vol), pending, rem, fills, released)
                        if m["kind"] in ("market", "stop") and got == 0 and close_when.get(i) == when:
                            for sym, val in self._reservation_before(i, when).items():
                                released[sym] += val
                        rem -= got
                # C05: market / stop orders do not survive the first bar of their pair after acceptance
                for i in live:
                    m = self.meta[i]
                    if m["kind"] in ("market", "stop"):
                        cw = close_when.get(i)
                        final = end.orders[i]
                        if final.is_open or cw is None or cw > when:
                            self.v("C05", "market_or_stop_survived_first_bar",
                                   f"{m['kind']} order accepted at {m['t']} still open after the bar of {when}",
                                   mechanism=self._classify_survivor())
                        elif f.get(i, ZERO) == 0 and final.amount_filled == 0:
                            self.stats["fill_or_kill_cancels"] += 1
                # C04 completeness (infinite liquidity, ample funds, no lending)
                if ample and self.lend is None and self.liq is None:
                    for i in live:
                        m = self.meta[i]
                        buy = m["side"] == "buy"
                        got = f.get(i, ZERO)
                        filled_before = ZERO
                        for w2, oi in self.events[i]:
                            if w2 < when:
                                filled_before = oi.amount_filled
                        pending = m["amount"] - filled_before
                        must = None
                        if m["kind"] == "market":
                            must = True
                        elif m["kind"] == "limit":
                            must = (low <= m["limit"]) if buy else (h >= m["limit"])
                        elif m["kind"] == "stop":
                            # fill-or-kill on the pair's next bar: with two feeds that is the first feed's bar
                            h1, low1 = self.barmap[(pname, when)][1], self.barmap[(pname, when)][2]
                            must = (h1 >= m["stop"]) if buy else (low1 <= m["stop"])
                        if must is None:
                            continue
                        self.stats["completeness_checks"] += 1
                        # a fill whose rounded quote amount is zero cannot be booked at all: don't-care
                        if q(pending * low, qp) == 0:
                            continue
                        if must and got != pending:
                            self.v("C04", "not_completely_filled",
                                   f"{m['kind']} {m['side']} {m['amount']} {pname} limit={m['limit']} stop={m['stop']} "
                                   f"pending {pending}: bar {when} O{o_} H{h} L{low} C{c} filled {got}")
                        if not must and got != 0 and m["kind"] in ("limit", "stop"):
                            self.v("C04", "filled_without_trigger",
                                   f"{m['kind']} {m['side']} limit={m['limit']} stop={m['stop']}: bar O{o_} H{h} L{low} C{c} filled {got}")

    def _reservation_before(self, oid: str, when) -> Dict[str, D]:
        """Replays the order's fills before `when` on its initial reservation (shadow of the hold it still owns)."""
        m = self.meta[oid]
        b, qs = m["pair"].split("/")
        buy = m["side"] == "buy"
        rem = dict(m.get("R", {}))
        pf = (ZERO, ZERO)
        lf: Dict[str, D] = {}
        for w2, oi in self.events[oid]:
            if w2 >= when:
                break
            db, dq = oi.amount_filled - pf[0], oi.quote_amount_filled - pf[1]
            dfee = {k: val - lf.get(k, ZERO) for k, val in oi.fees.items()}
            pf = (oi.amount_filled, oi.quote_amount_filled)
            lf = dict(oi.fees)
            net = {b: (db if buy else -db) - dfee.get(b, ZERO), qs: (-dq if buy else dq) - dfee.get(qs, ZERO)}
            for sym, n in net.items():
                if n < 0 and sym in rem:
                    rem[sym] = max(ZERO, rem[sym] + n)
        return rem

    def check_fits_but_unfilled(self, oid, m, pname, when, bar, pending, rem_liq, fills, released) -> None:
        """C08: a market order that fits what is left of the bar's liquidity is filled, funds permitting. 'Funds
        permitting' is decided conservatively: the order's own reservation plus a lower bound of the free funds at
        its turn must cover an upper bound of its cost."""
        before = self.before_clock.get(when)
        if before is None or self.lend is not None:
            return
        o_, h, low, c, vol = bar
        b, qs = pname.split("/")
        bp, qp = self.pair_prec(pname)
        own = self._reservation_before(oid, when)
        # lower bound of the free quote / base funds: what was available before this clock value, minus whatever any
        # fill of this clock value spent beyond the filled order's own reservation
        spent: Dict[str, D] = collections.defaultdict(D)
        for (pn, w2), per_order in fills.items():
            if w2 != when:
                continue
            pb, pq = pn.split("/")
            for oid2 in per_order:
                m2 = self.meta[oid2]
                r2 = self._reservation_before(oid2, when)
                for w3, oi in self.events[oid2]:
                    if w3 == when:
                        prev_f = [x for (w4, x) in self.events[oid2] if w4 < when]
                        p0 = prev_f[-1] if prev_f else None
                        dq = oi.quote_amount_filled - (p0.quote_amount_filled if p0 else ZERO)
                        db = oi.amount_filled - (p0.amount_filled if p0 else ZERO)
                        dfee = sum(oi.fees.values(), ZERO) - (sum(p0.fees.values(), ZERO) if p0 else ZERO)
                        if m2["side"] == "buy":
                            spent[pq] += max(ZERO, dq + dfee - r2.get(pq, ZERO))
                        else:
                            spent[pb] += max(ZERO, db - r2.get(pb, ZERO))
                            spent[pq] += max(ZERO, dfee - dq - r2.get(pq, ZERO))
                        break
        free = {s: before.avail(s) - spent.get(s, ZERO) + released.get(s, ZERO) for s in (b, qs)}
        impact = (self.liq[1] / 100) if self.liq else ZERO
        if m["side"] == "buy":
            cost = q(pending * h * (1 + impact), qp, decimal.ROUND_UP) + unit(qp)
            fee = q(max(cost * self.fee[0] / 100, self.fee[1]), qp, decimal.ROUND_UP) if self.fee else ZERO
            ok = own.get(qs, ZERO) + free[qs] >= cost + fee
        else:
            proceeds = q(pending * low * (1 - impact), qp, decimal.ROUND_DOWN)
            fee = q(max(q(pending * h, qp) * self.fee[0] / 100, self.fee[1]), qp, decimal.ROUND_UP) if self.fee else ZERO
            ok = own.get(b, ZERO) + free[b] >= pending and (fee <= proceeds or own.get(qs, ZERO) + free[qs] >= fee - proceeds) \
                and proceeds > 0
        self.stats["fits_checks"] += 1
        if ok and q(pending * low, qp) > 0:
            self.stats["fits_and_fundable_but_unfilled"] += 1
            self.v("C08", "order_that_fits_not_filled",
                   f"{m['kind']} {m['side']} of {pending} {pname} fits the {rem_liq} left in bar {when} (V{vol}) and its funds "
                   f"were sufficient (reservation {own}, free {free}), yet it was not filled")

    def _classify_survivor(self) -> str:
        for a in self.anomalies:
            if "Margin level too low" in a:
                return "margin_rule_on_non_borrowing_update"
        return ""


def _fmt(args: Dict[str, Any]) -> str:
    return ", ".join(f"{k}={v}" for k, v in args.items() if k not in ("op",))


def _rejection_origin(name: str, ex) -> str:
    s = str(ex)
    t = type(ex).__name__
    if "precision" in s or "must be > 0" in s or "Invalid amount" in s:
        return "validation"
    if "Margin level" in s:
        return "margin_rule"
    if "Lending is not supported" in s or "No lending conditions" in s:
        return "borrowing"
    if "available to hold" in s:
        return "hold"
    if t == "NotEnoughBalance":
        return "repayment" if name == "repay_loan" else "funds"
    if "not found" in s.lower():
        return "unknown_id"
    if "can't be canceled" in s or "not open" in s:
        return "closed"
    if t == "NoPrice":
        return "no_price"
    return "other:" + t


def run_scenario(sc: Dict[str, Any], res: ShardResult, listing_stride: int = 6, shared_lending=None) -> Run:
    run = Run(sc, res)
    run.listing_stride = listing_stride
    run.shared_lending = shared_lending
    loop = asyncio.new_event_loop()
    # part of the runs have the library's loggers at DEBUG level (the messages go nowhere): logging is not behaviour
    blog = logging.getLogger("basana")
    old_level = blog.level
    if len(repr(sorted(sc["actions"]))) % 4 == 1:
        blog.setLevel(logging.DEBUG)
        run.stats["debug_logging_runs"] += 1
    try:
        asyncio.set_event_loop(loop)
        loop.run_until_complete(run.run())
    except Exception as ex:
        import traceback
        run.anomalies.append(f"run aborted: {type(ex).__name__}: {ex}")
        run.stats["runs_aborted"] += 1
        run.aborted = traceback.format_exc()[-1200:]
    finally:
        blog.setLevel(old_level)
        loop.close()
        asyncio.set_event_loop(None)
    return run
