"""Scenario generator for the backtesting-exchange engine (DESIGN.md section 3.1).

A scenario is a plain JSON document (decimals as strings) that is fully expanded before it runs, so
a replay does not depend on the generator staying identical. Scenario classes aim the random
histories at the regions each property cares about.
"""
from __future__ import annotations

import decimal
from decimal import Decimal as D
from typing import Any, Dict, List, Optional

CLASSES = ["random", "margin", "feesliq", "ample", "long", "precision", "cross"]


def q(x, prec: int, rounding=decimal.ROUND_HALF_EVEN) -> D:
    return D(x).quantize(D(1).scaleb(-prec), rounding=rounding)


def unit(prec: int) -> D:
    return D(1).scaleb(-prec)


def _s(x: D) -> str:
    return format(x, "f")


def gen_bars(r, n: int, qprec: int, start_px: D, vols: List[D], t0: int = 0, step_choices=(1, 1, 1, 2),
             shapes: Optional[List[str]] = None) -> List[List[Any]]:
    u = unit(qprec)
    px = max(q(start_px, qprec), u)
    out = []
    t = t0
    for _ in range(n):
        t += r.choice(step_choices)
        o = max(q(px * D(str(round(r.uniform(0.93, 1.07), 4))), qprec), u)
        shape = r.choice(shapes or ["walk", "walk", "walk", "flat", "up", "down", "doji", "gap_up", "gap_down", "spike"])
        if shape == "flat":
            c = h = low = o
        elif shape == "up":
            c = max(q(o * D("1.08"), qprec), o)
            h, low = c, o
        elif shape == "down":
            c = max(q(o * D("0.92"), qprec), u)
            h, low = o, c
        elif shape == "doji":
            c = o
            h = q(o * D("1.05"), qprec)
            low = max(q(o * D("0.95"), qprec), u)
        elif shape in ("gap_up", "gap_down", "spike"):
            f = {"gap_up": D("1.6"), "gap_down": D("0.55"), "spike": D(str(r.choice([2, 3, 0.3])))}[shape]
            o = max(q(px * f, qprec), u)
            c = max(q(o * D(str(round(r.uniform(0.9, 1.1), 3))), qprec), u)
            h = max(o, c, q(max(o, c) * D("1.02"), qprec))
            low = max(min(o, c, q(min(o, c) * D("0.98"), qprec)), u)
        else:
            c = max(q(o * D(str(round(r.uniform(0.85, 1.18), 4))), qprec), u)
            h = max(o, c, q(max(o, c) * D(str(round(r.uniform(1, 1.08), 4))), qprec))
            low = max(min(o, c, q(min(o, c) * D(str(round(r.uniform(0.92, 1), 4))), qprec)), u)
        low = min(low, o, c)
        h = max(h, o, c)
        v = r.choice(vols)
        out.append([t, _s(o), _s(h), _s(low), _s(c), _s(v)])
        px = c
    return out


def second_feed(bars: Dict[str, List], pname: str, span: int = 2) -> Dict[str, List]:
    """A coarser feed of the same pair, aggregated from the fine one: every bar covers `span` fine bars and closes
    together with the last of them (a 2 h feed next to the 1 h feed)."""
    rows = bars[pname]
    out = []
    for i in range(span - 1, len(rows), span):
        grp = rows[i - span + 1: i + 1]
        if any(b[0] - a[0] != 1 for a, b in zip(grp, grp[1:])):
            continue          # a gap in the fine feed: no coarse bar for this stretch
        out.append([grp[-1][0], grp[0][1], _s(max(D(g[2]) for g in grp)), _s(min(D(g[3]) for g in grp)), grp[-1][4],
                    _s(sum((D(g[5]) for g in grp), D(0))), span])
    return {pname: out} if out else {}


def _cond(r, symbols: Dict[str, int], quote: str, borrowed: Optional[str] = None) -> Dict[str, Any]:
    isym = r.choice([quote, quote, borrowed or quote])
    p = symbols[isym]
    return {
        "interest_symbol": isym,
        # a negative rate (the lender pays) is a legal configuration: interest is still never negative
        "pct": r.choice(["0", "0.01", "1", "7", "12.5", "40", "7", "1", "-10", "-0.5"]),
        "period_s": r.choice([0, 3600, 86400, 30 * 86400, 365 * 86400]),
        "min": _s(q(D(r.choice(["0", "0", "0.01", "0.5", "3"])), p)),
        "req": r.choice(["0", "0.1", "0.25", "0.5", "1", "2"]),
    }


def gen_scenario(r, cls: str) -> Dict[str, Any]:
    """Returns a fully expanded scenario of the given class."""
    sc: Dict[str, Any] = {"class": cls}
    # ---- symbols and pairs -------------------------------------------------------------
    if cls == "precision":
        bp, qp = r.randrange(9), r.randrange(9)
        symbols = {"BTC": bp, "USD": qp}
        pairs = [["BTC", "USD"]]
    elif cls == "cross":
        symbols = {"BTC": r.choice([4, 8]), "ETH": r.choice([2, 3, 6]), "USD": r.choice([2, 2, 4])}
        pairs = [["BTC", "USD"], ["ETH", "USD"], ["ETH", "BTC"]]
        if r.random() < 0.5:
            # a symbol that can only be valued through the inverse of a pair (USD/JPY while the account is normalised
            # in USD): borrowing it exercises the 1/price conversion path
            symbols = {"BTC": r.choice([4, 8]), "JPY": r.choice([0, 2]), "USD": r.choice([2, 4])}
            pairs = [["BTC", "USD"], ["USD", "JPY"]]
    else:
        symbols = {"BTC": r.choice([0, 2, 4, 8]), "ETH": r.choice([0, 1, 3, 8]), "USD": r.choice([0, 2, 2, 2, 5])}
        pairs = [["BTC", "USD"]] + ([["ETH", "USD"]] if r.random() < 0.55 else [])
        if len(pairs) == 2 and r.random() < 0.25:
            pairs.append(["ETH", "BTC"])
    used = {x for pr in pairs for x in pr}
    symbols = {k: v for k, v in symbols.items() if k in used}
    sc["symbols"] = symbols
    sc["pairs"] = pairs
    sc["explicit_pair_info"] = [i for i in range(len(pairs)) if r.random() < 0.4]
    # pair-specific precisions: one symbol may be rounded differently in two of its pairs (BTC as the base of BTC/USD
    # and as the quote of ETH/BTC)
    sc["pair_prec"] = {}
    if ["ETH", "BTC"] in pairs and cls != "ample" and r.random() < 0.5:
        i = pairs.index(["ETH", "BTC"])
        qp_ = r.choice([p_ for p_ in (2, 4, 6, 8) if p_ != symbols["BTC"]])
        bp_ = r.choice([symbols["ETH"], symbols["ETH"], r.choice([0, 2, 5])])
        sc["pair_prec"]["ETH/BTC"] = [bp_, qp_]
        if i not in sc["explicit_pair_info"]:
            sc["explicit_pair_info"].append(i)
    elif len(pairs) >= 2 and cls != "ample" and r.random() < 0.3:
        # two pairs share their quote symbol but round it differently (BTC/USD to 2 decimals, ETH/USD to 4)
        i = r.randrange(1, len(pairs))
        b_, q_ = pairs[i]
        qp_ = r.choice([p_ for p_ in (0, 2, 4, 6) if p_ != symbols[q_]])
        sc["pair_prec"][f"{b_}/{q_}"] = [symbols[b_], qp_]
        if i not in sc["explicit_pair_info"]:
            sc["explicit_pair_info"].append(i)
    quote = "USD"

    # ---- configuration -----------------------------------------------------------------
    fee = None
    if cls in ("feesliq",) or (cls != "ample" and r.random() < 0.6) or (cls == "ample" and r.random() < 0.4):
        fee = {"pct": r.choice(["0", "0.1", "0.25", "1.5", "0.075", "9.999", "33.333333", "99.999"]),
               "min": r.choice(["0", "0", "0.01", "0.013", "5", "250"])}
    liq = None
    if cls == "feesliq" or (cls not in ("ample",) and r.random() < 0.5):
        liq = {"limit": r.choice(["0", "1", "10", "25", "25", "100"]), "impact": r.choice(["0", "5", "10", "50"])}
    lend = None
    if cls in ("margin", "cross") or (cls in ("random", "long", "long_q", "precision") and r.random() < 0.45):
        lend = {"quote": quote,
                "default": _cond(r, symbols, quote) if r.random() < 0.85 else None,
                "per_symbol": {s: _cond(r, symbols, quote, s) for s in symbols if r.random() < 0.35}}
    sc["fee"], sc["liq"], sc["lend"] = fee, liq, lend
    if cls == "ample" and fee is None and r.random() < 0.3:
        # a custom fee scheme (public FeeStrategy interface) that charges buys in the asset they receive
        sc["base_fee_pct"] = r.choice(["0.1", "1", "10"])
    sc["max_concurrent"] = r.choice([1, 2, 3, 50, 50])

    # ---- bars --------------------------------------------------------------------------
    nbars = {"long": r.randint(250, 420), "long_q": r.randint(140, 300), "precision": r.randint(6, 20)}.get(cls, r.randint(5, 40))
    vol_units = [D(x) for x in ("0", "1", "3", "10", "100", "1000")]
    vol_mult = [D(x) for x in ("1", "0.37", "2.5", "1.111")]
    vols = [a * b for a in vol_units for b in vol_mult]
    if cls == "ample":
        # the liquidity model of this class ignores volume: a bar without volume matches orders like any other
        vols = [D("1000000")] * 5 + [D("0")]
    bars: Dict[str, List] = {}
    same_times = r.random() < 0.6
    for i, (b, qs) in enumerate(pairs):
        start = {"BTC": D(r.choice([50, 1000, 20000])), "ETH": D(r.choice([3, 50, 1500])), "USD": D(r.choice([80, 150]))}[b]
        if qs == "BTC":
            start = D(r.choice(["0.05", "0.5", "3"]))
        steps = (1,) if same_times else (1, 1, 1, 2)
        bl = gen_bars(r, nbars, sc["pair_prec"].get(f"{b}/{qs}", [0, symbols[qs]])[1], start, vols, step_choices=steps)
        shift = bl[0][0] - 1          # every pair has its first bar at t=1: a price exists before any handler runs
        for row in bl:
            row[0] -= shift
        bars[f"{b}/{qs}"] = bl
    sc["bars"] = bars
    # bars may summarise more than the spacing between them (e.g. 2 h or 4 h bars published every hour)
    sc["bar_hours"] = {pname: r.choice([1, 1, 1, 2, 4]) for pname in bars}

    if (cls == "ample" and r.random() < 0.2) or (cls == "feesliq" and r.random() < 0.15):
        sc["bars2"] = second_feed(bars, r.choice(list(bars)))
    # how the lending strategy is supplied: configured MarginLoans, a subclass answering get_conditions() itself, or a
    # thin LendingStrategy that delegates to a MarginLoans it owns
    sc["lend_style"] = r.choice(["plain", "plain", "plain", "subclass", "wrapper"]) if lend is not None else "plain"
    # ---- initial balances ----------------------------------------------------------------
    init = {}
    if cls == "ample":
        init = {"USD": "1000000000", "BTC": "1000000", "ETH": "1000000"}
    else:
        init["USD"] = _s(q(D(r.choice([0, 0, 100, 10000, 1000000])), symbols["USD"]))
        init["BTC"] = _s(q(D(r.choice(["0", "0", "1", "50", "0.5"])), symbols["BTC"]))
        if "JPY" in symbols:
            init["JPY"] = _s(q(D(r.choice(["0", "0", "100000"])), symbols["JPY"]))
        if "ETH" in symbols:
            init["ETH"] = _s(q(D(r.choice(["0", "0", "10", "3.5"])), symbols["ETH"]))
        if cls == "margin" and r.random() < 0.3:
            init = {k: "0" for k in init}       # empty account: only borrowing can fund anything
    if lend is not None and cls != "ample" and r.random() < 0.25:
        # the account is opened with a debt (negative initial balance): borrowed funds without a loan behind them
        s_ = r.choice(sorted(k for k in init if k in symbols))
        init[s_] = "-" + _s(q(D({"USD": r.choice(["100", "10000"]), "JPY": "100000"}.get(s_, r.choice(["1", "2", "30"]))), symbols[s_]))
    sc["init"] = {k: v for k, v in init.items() if k in symbols}

    # ---- strategy script -----------------------------------------------------------------
    actions: Dict[str, List[Dict[str, Any]]] = {}
    density = {"long": [0, 0, 1, 1, 2], "long_q": [0, 0, 1, 1, 2], "feesliq": [1, 2, 3, 4, 6], "margin": [0, 1, 2, 3]}.get(cls, [0, 1, 1, 2, 3])
    for pname, blist in bars.items():
        b, qs = pname.split("/")
        bprec, qprec = sc["pair_prec"].get(pname, [symbols[b], symbols[qs]])
        for bi, (t, o, h, low, c, v) in enumerate(blist):
            acts: List[Dict[str, Any]] = []
            close = D(c)
            nxt = blist[bi + 1] if bi + 1 < len(blist) else None
            for _ in range(r.choice(density)):
                acts.append(_gen_action(r, cls, sc, pname, close, nxt, bprec, qprec, v))
            if acts:
                actions[f"{pname}@{t}"] = acts
    sc["early_lookup"] = r.random() < 0.3
    if cls == "ample" and fee is None and r.random() < 0.4:
        # refine the precision of a base symbol half-way through; later amounts use the finer grid
        pname = r.choice(list(bars))
        b = pname.split("/")[0]
        if symbols[b] <= 6 and all(pr[1] != b for pr in pairs):
            times = sorted({row[0] for row in bars[pname]})
            tk = times[len(times) // 2]
            newp = symbols[b] + 2
            key = f"{pname}@{tk}"
            actions.setdefault(key, []).insert(0, {"op": "refine_base", "symbol": b, "precision": newp})
            for k2, acts in actions.items():
                pn2, t2 = k2.split("@")
                if int(t2) >= tk:
                    for a in acts:
                        if a.get("op") == "order" and a["pair"].split("/")[0] == b and r.random() < 0.7 \
                                and D(a["amount"]) > 0 and D(a["amount"]) == q(D(a["amount"]), symbols[b]):
                            a["amount"] = _s(D(a["amount"]) + unit(newp) * r.randint(1, 99))
                            a["finer"] = True
    if lend is not None and cls in ("margin", "cross", "random") and actions and r.random() < 0.2:
        # the lending conditions of a symbol are replaced half-way through (rate, period, minimum, interest symbol,
        # requirement): loans already granted keep the conditions they were granted with
        keys = sorted(actions, key=lambda k: int(k.split("@")[1]))
        k_ = keys[len(keys) // 2]
        sym_ = r.choice(sorted(symbols))
        actions[k_].insert(0, {"op": "set_cond", "symbol": sym_, "cond": _cond(r, symbols, quote, sym_)})
    sc["actions"] = actions
    sc["no_order_events"] = cls in ("random", "margin") and r.random() < 0.12
    # a few actions issued from order-event handlers and scheduled jobs
    sc["on_order_event"] = []
    if cls not in ("long", "long_q") and r.random() < 0.5:
        for _ in range(r.randint(1, 4)):
            sc["on_order_event"].append({"nth_event": r.randint(0, 30),
                                         "action": r.choice([{"op": "cancel", "among": "open", "pick": r.randrange(100)},
                                                             {"op": "query"},
                                                             {"op": "cancel_same"}])})
    sc["jobs"] = []
    if r.random() < 0.4:
        tmax = max(bl[-1][0] for bl in bars.values())
        for _ in range(r.randint(1, 3)):
            # jobs fire between bars and before the last bar (events produced by jobs of the final drain are
            # outside the quantifier of the exsim properties)
            sc["jobs"].append({"t": r.randint(1, max(1, tmax - 1)), "half": True,
                               "action": r.choice([{"op": "cancel", "among": "open", "pick": r.randrange(100)},
                                                   {"op": "repay", "among": "open", "pick": r.randrange(100)},
                                                   {"op": "query"}])})
    if lend is not None and r.random() < 0.6:
        # loans taken and repaid at instants with a sub-second component (interest is proportional to elapsed time at
        # full clock resolution); big principals so that fractions of a second are visible at the symbol's precision
        tmax = max(bl[-1][0] for bl in bars.values())
        for _ in range(r.randint(1, 3)):
            sym = r.choice(list(symbols))
            amt = q(D(r.choice([5000, 250000, 5000000])), symbols[sym])
            sc["jobs"].append({"t": r.randint(1, max(1, tmax - 1)), "half": True, "us": r.choice([1, 250000, r.randrange(10 ** 6), 59 * 10 ** 6 + 999999]),
                               "action": r.choice([{"op": "loan", "symbol": sym, "amount": _s(amt), "boundary": False},
                                                   {"op": "repay", "among": "open", "pick": r.randrange(100)},
                                                   {"op": "query"}])})
    return sc


def _amount(r, cls: str, bprec: int, vol: str) -> D:
    u = unit(bprec)
    if cls == "ample":
        a = q(D(r.choice([1, 2, 5, 10, 40])) * D(r.choice(["1", "0.1", "0.013"])), bprec)
    else:
        choices = [D(r.choice([1, 2, 5, 10, 40])) * D(r.choice(["1", "0.1", "0.013", "0.5"])), u, u * 3,
                   D(vol) * D(r.choice(["0.05", "0.25", "0.3", "1.5"]))]
        a = q(r.choice(choices), bprec, decimal.ROUND_DOWN)
    return a if a > 0 else u


def _price(r, ref: D, qprec: int, nxt) -> D:
    u = unit(qprec)
    if nxt is not None and r.random() < 0.45:
        # exactly one of the next bar's prices, or one grid unit around them: the interesting boundaries
        p = D(r.choice(nxt[1:5])) + u * r.choice([-1, 0, 0, 1])
    else:
        p = q(ref * D(r.choice(["0.5", "0.9", "0.97", "0.99", "1", "1.01", "1.03", "1.1", "2"])), qprec)
    return max(p, u)


def _gen_action(r, cls: str, sc, pname: str, close: D, nxt, bprec: int, qprec: int, vol: str) -> Dict[str, Any]:
    lend = sc["lend"] is not None
    x = r.random()
    w_order = {"long": 0.7, "long_q": 0.7, "feesliq": 0.8, "margin": 0.5, "ample": 0.85}.get(cls, 0.6)
    if x < w_order:
        # trade possibly on another pair than the one whose bar is being handled
        pairs = list(sc["bars"].keys())
        if r.random() < 0.25 and len(pairs) > 1:
            pname = r.choice(pairs)
            b, qs = pname.split("/")
            bprec, qprec = sc["symbols"][b], sc["symbols"][qs]
            close = D(sc["bars"][pname][0][4])   # rough reference only
            nxt = None
        kind = r.choice(["market", "limit", "limit", "stop", "stop_limit"])
        act = {"op": "order", "kind": kind, "side": r.choice(["buy", "sell"]), "pair": pname,
               "amount": _s(_amount(r, cls, bprec, vol)),
               "auto_borrow": lend and r.random() < (0.6 if cls == "margin" else 0.3),
               "auto_repay": lend and r.random() < (0.6 if cls == "margin" else 0.3)}
        if kind in ("limit", "stop_limit"):
            act["limit"] = _s(_price(r, close, qprec, nxt))
        if kind in ("stop", "stop_limit"):
            act["stop"] = _s(_price(r, close, qprec, nxt))
        # invalid requests
        y = r.random()
        if y > 0.97 and kind != "market" and qprec > bprec:
            # the amount has more decimals than the base precision allows (must be refused) and happens to be the very
            # number used as the order's price
            v = q(close, qprec)
            if v != q(v, bprec, decimal.ROUND_DOWN) and v > 0:
                act["amount"] = _s(v)
                for k_ in ("limit", "stop"):
                    if k_ in act:
                        act[k_] = _s(v)
        if y < 0.03:
            act["amount"] = r.choice(["0", "-1", _s(D(act["amount"]) + unit(bprec) / 10)])
        elif y < 0.05 and "limit" in act:
            act["limit"] = r.choice(["0", "-5", _s(D(act["limit"]) + unit(qprec) / 3)])
        elif y < 0.06 and "stop" in act:
            act["stop"] = r.choice(["0", _s(D(act["stop"]) + unit(qprec) / 7)])
        return act
    if x < w_order + 0.12:
        c_ = {"op": "cancel", "among": r.choice(["open", "open", "open", "any", "closed", "unknown"]), "pick": r.randrange(1000)}
        if nxt is not None and r.random() < 0.15:
            # the handler leaves the cancellation to a job it schedules for "now" or for a time already in the past
            # (e.g. the begin of the bar being handled): the job runs before the next bar, with the clock where it is
            return {"op": "schedule", "minutes": r.choice([0, -30, -60, -600]), "action": dict(c_, among="open")}
        return c_
    if x < w_order + 0.17:
        return {"op": "query"}
    if x < w_order + 0.17 + (0.2 if cls == "margin" else 0.1):
        sym = r.choice(list(sc["symbols"]))
        sp = sc["symbols"][sym]
        amt = q(D(r.choice([1, 3, 100, 5000, 250000])) * D(r.choice(["1", "0.01", "0.5"])), sp)
        amt = amt if amt > 0 else unit(sp)
        if r.random() < 0.05:
            amt = D(r.choice(["0", "-1"]))
        elif cls in ("random", "margin", "cross") and r.random() < 0.12:
            # create_loan does not validate precision: an amount with more decimals than the symbol's grid is a legal
            # input (C08's grid clause is then don't-care for that account, the other properties still apply)
            amt = amt + unit(sp) * D(r.choice(["0.5", "0.25", "0.125", "0.3"]))
        return {"op": "loan", "symbol": sym, "amount": _s(amt), "boundary": lend and r.random() < 0.35}
    return {"op": "repay", "among": r.choice(["open", "open", "open", "any", "closed", "unknown"]), "pick": r.randrange(1000)}
