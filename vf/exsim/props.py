"""Property front-ends of the exsim engine: C01, C02, C04-C11 (DESIGN.md section 3).

All monitors run on every scenario (they are cheap); a check reports only the violations of its
own property, the others are counted in the evidence (`other_property_violations`).
"""
from __future__ import annotations

import collections
from typing import Any, Dict, List

from vf import common, sentinel
from vf.common import Context, Plan, ShardResult
from vf.exsim import gen, run as xrun, micro

PROPS = ["C01", "C02", "C04", "C05", "C06", "C07", "C08", "C09", "C10", "C11"]
LEVELS = {p: "exploration" for p in PROPS}

# class mix per property (weights); every property also sees the generic classes
MIX: Dict[str, List[str]] = {
    "C01": ["random", "random", "feesliq", "margin", "cross", "precision", "micro_c07"],
    "C02": ["random", "margin", "margin", "feesliq", "cross", "precision", "micro_c07", "micro_c08"],
    "C04": ["ample", "ample", "feesliq", "random", "precision", "micro_c04", "micro_c04b", "micro_c04b", "micro_c04c"],
    "C05": ["random", "feesliq", "ample", "long", "margin"],
    "C06": ["random", "margin", "margin", "feesliq", "precision", "micro_c06", "micro_c06"],
    "C07": ["random", "margin", "margin", "cross", "feesliq", "micro_c07"],
    "C08": ["feesliq", "feesliq", "precision", "precision", "random", "micro_c08", "micro_c08"],
    "C09": ["feesliq", "feesliq", "random", "precision"],
    "C10": ["margin", "margin", "cross", "random", "micro_c10", "micro_c10", "micro_c07"],
    "C11": ["margin", "margin", "cross", "random", "micro_c07"],
}

QUICK_CASES = {"C05": 35, "C04": 60, "C06": 90}


def plan(prop: str, tier: str) -> Plan:
    if tier == "quick":
        return Plan(shards=8, cases_per_shard=QUICK_CASES.get(prop, 80), timeout_s=600)
    return Plan(shards=16, cases_per_shard={"C05": 350}.get(prop, 1200), timeout_s=3000)


RULES = {
    "C01": "non-trivial scenario: >=1 partial fill, >=1 fee charged and (with lending) >=1 loan repaid with interest or "
           "closed by auto-repay; the ledger equation is evaluated on every snapshot (after every API call and event)",
    "C02": "non-trivial: >=1 fill refused for lack of funds or >=2 orders competing in a bar, or loans opened and closed; "
           "sign / borrowed==open-principal checks on every snapshot plus icontract post-conditions on every internal "
           "AccountBalances.update",
    "C04": "non-trivial: >=3 fills of >=2 order kinds checked against their bar (random classes), or a micro-scenario "
           "(one order, one bar, one weak ordering of O/H/L/C/limit/stop) that produced a decision (fill or no fill)",
    "C05": "non-trivial: >=3 orders whose event sequence was compared with the polled state sequence and >=2 different "
           "closing causes seen",
    "C06": "non-trivial: >=1 shadow-hold comparison with >=2 open reservations, or a boundary micro-scenario "
           "(accept at exactly R, reject at R-1 unit)",
    "C07": "non-trivial: >=2 rejected calls of >=2 different origins with state compared before/after",
    "C08": "non-trivial: >=1 bar with >=2 competing orders under a volume-share liquidity model, or a precision pair "
           "(base,quote) with fills",
    "C09": "non-trivial: >=1 order with >=2 fills under a percentage fee (fee rounding across partial fills)",
    "C10": "non-trivial: >=1 granted loan with a positive margin requirement in force, or a boundary micro-scenario "
           "(max grantable +- one unit)",
    "C11": "non-trivial: >=1 positive interest reading compared with the reference and >=1 loan closure attributed",
}
for _p in PROPS:
    RULES[_p] += "; distinct = digest of the scenario's situation signature (multiset of order kind/side/flags, fill " \
                 "shapes, closing causes, rejection origins, loan events), not of raw random numbers."

ASSUMPTIONS = {p: [
    "every traded symbol has its precision configured; initial balances and loan amounts are on the grid; an account "
    "may be opened with a debt (negative initial balance), for which 'borrowed' is compared with opening debt + open "
    "principal (the literal clause is known finding opening_debt_has_no_loan)",
    "the strategy talks to the exchange only through the public async API; order events are subscribed before the run "
    "(except in the polling scenarios, where nobody subscribes and only polled state is judged)",
    "scheduled jobs that trade are placed between bar times (a job at exactly a bar time acts before that bar is "
    "matched, which the statement does not cover); jobs that only borrow may run at bar times, and handlers may "
    "schedule cancelling jobs for 'now' or the past",
] for p in PROPS}
ASSUMPTIONS["C06"].append("degenerate reservations whose rounded notional is zero at quote precision are don't-care")
ASSUMPTIONS["C10"].append("equity = sum over symbols of max(0, available+hold-borrowed) valued at the last close "
                          "(the code's / Binance's margin-level numerator)")
ASSUMPTIONS["C11"].append("interest reference is an interval (relative 1e-12) because the code multiplies by a binary "
                          "float ratio")

WATCH = [
    "basana.backtesting.order_mgr", "basana.backtesting.account_balances", "basana.backtesting.loan_mgr",
    "basana.backtesting.orders", "basana.backtesting.exchange", "basana.backtesting.helpers",
    "basana.backtesting.lending.margin", "basana.backtesting.fees", "basana.backtesting.liquidity",
]


def nontrivial(prop: str, r: xrun.Run) -> bool:
    st, sig = r.stats, r.sig
    kinds = {s[1] for s in sig if s[0] == "fill"}
    if prop == "C01":
        ok = st["partial_fills"] >= 1 and any(s[0] == "fill" for s in sig)
        if r.fee:
            ok = ok and st["fee_checks"] > 0
        if r.lend:
            ok = ok and (st["repay_with_interest"] + st["loan_closed_by_auto_repay"]) >= 1
        return ok
    if prop == "C02":
        return any(s[0] == "competing" for s in sig) or st["loan_closed_by_repay_loan"] + st["loan_closed_by_auto_repay"] >= 1 \
            or st["fill_or_kill_cancels"] >= 1
    if prop == "C04":
        return st["fill_checks"] >= 3 and len(kinds) >= 2
    if prop == "C05":
        causes = {s[2] for s in sig if s[0] == "closed"}
        return st["event_sequences_checked"] >= 3 and len(causes) >= 2
    if prop == "C06":
        return st["shadow_hold_checks"] >= 1 and st["reservation_checks"] >= 2
    if prop == "C07":
        origins = {s[2] for s in sig if s[0] == "rej"}
        return len(origins) >= 2
    if prop == "C08":
        return (r.liq is not None and any(s[0] == "competing" for s in sig)) or \
            (r.sc.get("class") == "precision" and st["fills"] >= 1)
    if prop == "C09":
        return r.fee is not None and st["partial_fills"] >= 1
    if prop == "C10":
        return st["c10_grants_with_requirement"] >= 1
    if prop == "C11":
        return st["interest_positive"] >= 1 and (st["loan_closed_by_repay_loan"] + st["loan_closed_by_auto_repay"]) >= 1
    return False


def run_shard(ctx: Context, res: ShardResult) -> None:
    from vf.exsim import contracts
    prop = ctx.prop
    mix = MIX[prop]
    sen = sentinel.Sentinel(WATCH, lines=True)
    sen.start()
    contracts.install(res)
    other: collections.Counter = collections.Counter()
    try:
        for k, i in enumerate(ctx.case_ids()):
            if ctx.out_of_time():
                res.errors.append("ran out of time")
                break
            cls = mix[i % len(mix)]
            if cls == "long" and ctx.tier == "quick":
                cls = "long_q"      # shorter histories on the quick tier (still several re-indexes of the open list)
            r = ctx.rng("exsim", i)
            if cls.startswith("micro_"):
                micro.run_micro(cls, r, prop, res, other)
                continue
            sc = gen.gen_scenario(r, cls)
            one(prop, sc, res, other)
        if prop == "C09":
            # directed: the quote symbol's precision is refined after the pair has traded (own random stream, so the
            # scenarios above are the same as before this class existed)
            for idx in range(ctx.shard, 96 if ctx.tier == "quick" else 4800, ctx.nshards):
                if ctx.out_of_time():
                    res.errors.append("ran out of time during the micro_c09 runs")
                    break
                micro.run_micro("micro_c09", ctx.rng("micro_c09", idx), prop, res, other)
        if prop == "C04":
            # exhaustive sweep of the finite micro space: every weak ordering x order kind x side
            n = micro.c04_space_size()
            for idx in range(ctx.shard, n, ctx.nshards):
                if ctx.out_of_time():
                    res.errors.append("ran out of time during the micro_c04 sweep")
                    break
                micro.run_micro("micro_c04", ctx.rng("sweep", idx), prop, res, other, index=idx)
                res.count("micro_c04_sweep")
    finally:
        sen.stop()
        contracts.report(res)
    for name, n in sen.calls.items():
        res.sentinel("call:" + name, n)
    for f, n in sen.lines_per_file().items():
        res.sentinel("lines_hit:" + f, n)
    for k, v in other.items():
        res.count("other_property_violations:" + k, v)


def one(prop: str, sc: Dict[str, Any], res: ShardResult, other: collections.Counter) -> xrun.Run:
    r = xrun.run_scenario(sc, res, listing_stride=2 if prop == "C05" else 6)
    if sc.get("reuse_strategy") and r.ls is not None and not getattr(r, "aborted", None):
        # the same scenario again on a new exchange built with the *same* lending strategy object (consecutive backtests
        # sharing one MarginLoans instance): all monitors apply again, and the outcome must be the same
        if any(a.get("op") == "set_cond" for acts in sc["actions"].values() for a in acts):
            pass   # conditions were changed during the first run: a second run would start from different conditions
        else:
            r2 = xrun.run_scenario(sc, res, listing_stride=6, shared_lending=r.ls)
            res.count("reuse_runs")
            for v in r2.viol:
                r.viol.append(v)
            k1 = (r.stats["ok_create_loan"], r.stats["rejected_create_loan"], r.stats["auto_borrow_loans"])
            k2 = (r2.stats["ok_create_loan"], r2.stats["rejected_create_loan"], r2.stats["auto_borrow_loans"])
            if k1 != k2:
                r.v("C10", "second_exchange_with_same_strategy_differs",
                    f"loans granted/rejected/auto-borrowed {k1} on the first exchange, {k2} on a second exchange built with "
                    f"the same MarginLoans object")
    res.evaluations += 1
    for k, v in r.stats.items():
        res.count(k, v)
    res.count("class:" + str(sc.get("class")))
    if getattr(r, "aborted", None):
        res.count("runs_aborted_total")
        res.extra.setdefault("aborted_samples", r.aborted[-400:])
    for a in r.anomalies:
        key = a.split("::")[-1].strip()[:60] if "::" in a else a[:60]
        res.count("anomaly:" + key)
    for v in r.viol:
        if v.property == prop:
            res.violate(v)
        else:
            other[v.property + ":" + v.kind] += 1
    if nontrivial(prop, r):
        res.nontrivial.add(common.digest(sorted(map(repr, r.sig))))
    res.sample({"class": sc.get("class"), "symbols": sc["symbols"], "pairs": sc["pairs"], "fee": sc["fee"],
                "liq": sc["liq"], "lend": bool(sc["lend"]), "bars_per_pair": len(next(iter(sc["bars"].values()))),
                "actions": sum(len(a) for a in sc["actions"].values()),
                "first_actions": next(iter(sc["actions"].values()), [])[:2],
                "observed": {k: r.stats[k] for k in ("snapshots", "fills", "order_events", "ok_create_order",
                                                     "rejected_create_order", "ok_create_loan", "repay_checked")}})
    return r


def replay(prop: str, scenario: Dict[str, Any], res: ShardResult) -> None:
    from vf.exsim import contracts
    contracts.install(res)
    other: collections.Counter = collections.Counter()
    if scenario.get("class", "").startswith("micro_"):
        micro.replay_micro(scenario, prop, res, other)
    else:
        one(prop, scenario, res, other)
    contracts.report(res)


SENTINELS = {
    "C01": ["ledger_checks", "fills", "partial_fills", "fee_checks"],
    "C02": ["balance_checks", "contract:AccountBalances.update"],
    "C04": ["fill_checks", "completeness_checks"],
    "C05": ["event_sequences_checked", "closed_filled", "closed_cancelled", "closed_fill_or_kill", "listing_checks"],
    "C06": ["shadow_hold_checks", "reservation_checks", "closed_cancelled", "closed_fill_or_kill", "closed_filled"],
    "C07": ["rejected_create_order", "rejected_cancel_order", "rejected_repay_loan", "rejected_create_loan",
            "rej_origin_validation", "rej_origin_hold", "rej_origin_margin_rule", "rej_origin_closed", "loans_rolled_back"],
    "C08": ["liquidity_bars_checked", "fill_checks", "balance_checks"],
    "C09": ["fee_checks", "partial_fills"],
    "C10": ["c10_grants_checked", "c10_grants_with_requirement", "rej_origin_margin_rule"],
    "C11": ["interest_checks", "interest_positive", "repay_checked", "loan_closed_by_repay_loan",
            "loan_closed_by_auto_repay"],
}


def finalize(prop: str, tier: str, merged: ShardResult) -> Dict[str, Any]:
    inc = []
    for name in SENTINELS[prop]:
        if merged.counters.get(name, 0) < 3:
            inc.append(f"deciding monitor/path '{name}' reached only {merged.counters.get(name, 0)} times")
    if merged.counters.get("monitor_failures", 0):
        inc.append(f"{merged.counters['monitor_failures']} monitor failures (harness bug)")
    cov = {"anomalies": {k[8:]: v for k, v in merged.counters.items() if k.startswith("anomaly:")},
           "other_property_violations": {k.split(":", 1)[1]: v for k, v in merged.counters.items()
                                         if k.startswith("other_property_violations:")}}
    return {"inconclusive": inc, "coverage": cov}
