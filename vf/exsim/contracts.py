"""icontract post-conditions applied from the harness to the pure-Python containers of the exchange.

Conditions *record and return True*: a raising contract inside an event handler would be swallowed
by the dispatcher and would abort the operation it observes. Evaluation counters are reported;
zero evaluations means the contract was bypassed (inconclusive for the checks relying on it).
"""
from __future__ import annotations

from decimal import Decimal
from typing import Any, Dict, Optional

COUNTERS: Dict[str, int] = {}
CURRENT: Dict[str, Any] = {"run": None}
_INSTALLED = False


class ContractBroken(Exception):
    pass


def _record(prop: str, kind: str, msg: str) -> None:
    run = CURRENT.get("run")
    if run is not None:
        run.v(prop, kind, msg)


def balances_valid_after_update(self) -> bool:
    COUNTERS["AccountBalances.update"] = COUNTERS.get("AccountBalances.update", 0) + 1
    zero = Decimal(0)
    for s, v in self.balances.items():
        if v < zero:
            _record("C02", "internal_negative_balance", f"after update: balance {s} = {v}")
    for s, v in self.holds.items():
        if v < zero or v > self.balances.get(s, zero):
            _record("C02", "internal_invalid_hold", f"after update: hold {s} = {v}, balance {self.balances.get(s, zero)}")
    for s, v in self.borrowed.items():
        if v < zero:
            _record("C02", "internal_negative_borrowed", f"after update: borrowed {s} = {v}")
    return True


def container_consistent_after_add(self) -> bool:
    COUNTERS["ExchangeObjectContainer.add"] = COUNTERS.get("ExchangeObjectContainer.add", 0) + 1
    ids = [it.id for it in self._open_items]
    if len(set(ids)) != len(ids):
        _record("C05", "internal_open_list_duplicates", "duplicate ids in the open-items index")
    for it in self._open_items:
        if self._items.get(it.id) is not it:
            _record("C05", "internal_open_list_foreign_item", f"open item {it.id} not in the id index")
    return True


def install(res=None) -> None:
    global _INSTALLED
    if _INSTALLED:
        return
    import icontract
    from basana.backtesting import account_balances as ab, helpers as bh
    ab.AccountBalances.update = icontract.ensure(balances_valid_after_update, error=ContractBroken)(
        ab.AccountBalances.update)
    bh.ExchangeObjectContainer.add = icontract.ensure(container_consistent_after_add, error=ContractBroken)(
        bh.ExchangeObjectContainer.add)
    _INSTALLED = True


def report(res) -> None:
    for k, v in COUNTERS.items():
        res.count("contract:" + k, v)
    COUNTERS.clear()
