"""One shard of one check, run as a separate interpreter by vf.common.run_check."""
import argparse
import faulthandler
import json
import logging
import sys
import time
import traceback

from vf import common


def main() -> int:
    ap = argparse.ArgumentParser()
    ap.add_argument("--prop", required=True)
    ap.add_argument("--tier", required=True)
    ap.add_argument("--seed", type=int, required=True)
    ap.add_argument("--shard", type=int, required=True)
    ap.add_argument("--nshards", type=int, required=True)
    ap.add_argument("--cases", type=int, required=True)
    ap.add_argument("--timeout", type=int, default=900)
    ap.add_argument("--params", default="{}")
    ap.add_argument("--out", required=True)
    a = ap.parse_args()

    # A hang produces stacks on stderr; the parent treats the missing result as inconclusive.
    faulthandler.dump_traceback_later(a.timeout, exit=True)
    logging.getLogger().addHandler(logging.NullHandler())  # no output; monitors attach their own capturing handlers
    common.ensure_deps()
    common.assert_repo_tree()
    mod = common.load_module(a.prop)
    ctx = common.Context(prop=a.prop, tier=a.tier, seed=a.seed, shard=a.shard, nshards=a.nshards, cases=a.cases,
                         params=json.loads(a.params), deadline=time.time() + a.timeout * 0.9)
    res = common.ShardResult()
    try:
        mod.run_shard(ctx, res)
    except Exception:
        res.errors.append("harness failure: " + traceback.format_exc()[-1500:])
    with open(a.out, "w") as f:
        json.dump(res.to_json(), f, default=str)
    return 0


if __name__ == "__main__":
    sys.exit(main())
