"""Loopback HTTP peer for the wire engine: an aiohttp.web server on 127.0.0.1 (ephemeral port) that records
exactly what it received (method, raw path with the raw query string, raw headers, raw body) and verifies
signatures the way the exchanges do - over the received bytes, never over what the client meant to send."""
from __future__ import annotations

import hashlib
import hmac
from typing import Any, Callable, Dict, List, Optional, Tuple

from aiohttp import web


class Received:
    def __init__(self, method: str, raw_path: str, headers: List[Tuple[str, str]], body: bytes):
        self.method = method
        self.raw_path = raw_path
        self.headers = headers
        self.body = body

    @property
    def path(self) -> str:
        return self.raw_path.split("?", 1)[0]

    @property
    def raw_query(self) -> str:
        return self.raw_path.split("?", 1)[1] if "?" in self.raw_path else ""

    def header(self, name: str) -> Optional[str]:
        vals = [v for k, v in self.headers if k.lower() == name.lower()]
        return vals[0] if vals else None

    def header_count(self, name: str) -> int:
        return sum(1 for k, v in self.headers if k.lower() == name.lower())


class Loopback:
    def __init__(self):
        self.requests: List[Received] = []
        self.reply: Callable[[str, str], Any] = lambda method, path: {}
        self._runner: Optional[web.AppRunner] = None
        self.port = 0
        self.drop_next = 0
        self.dropped = 0

    async def _handle(self, request: web.Request) -> web.Response:
        body = await request.read()
        rec = Received(request.method, request.raw_path,
                       [(k.decode("latin-1"), v.decode("latin-1")) for k, v in request.raw_headers], body)
        self.requests.append(rec)
        if self.drop_next > 0:
            # the request was received, the connection dies before any reply is written
            self.drop_next -= 1
            self.dropped += 1
            if request.transport is not None:
                request.transport.close()
            return web.Response(status=500)
        payload = self.reply(request.method, rec.path)
        if isinstance(payload, tuple):
            status, payload = payload
            return web.json_response(payload, status=status)
        return web.json_response(payload)

    async def start(self) -> str:
        app = web.Application()
        app.router.add_route("*", "/{tail:.*}", self._handle)
        self._runner = web.AppRunner(app, access_log=None)
        await self._runner.setup()
        site = web.TCPSite(self._runner, "127.0.0.1", 0)
        await site.start()
        self.port = site._server.sockets[0].getsockname()[1]  # type: ignore[union-attr]
        return f"http://127.0.0.1:{self.port}/"

    async def stop(self) -> None:
        if self._runner is not None:
            await self._runner.cleanup()

    @property
    def last(self) -> Received:
        return self.requests[-1]


def binance_expected_signature(secret: str, rec: Received) -> Tuple[Optional[str], str]:
    """Returns (signature received, signature recomputed over the received query string without it + the body)."""
    parts = rec.raw_query.split("&") if rec.raw_query else []
    sig = None
    rest = []
    for p in parts:
        if p.startswith("signature="):
            sig = p[len("signature="):]
        else:
            rest.append(p)
    total = "&".join(rest) + rec.body.decode("utf-8", "replace")
    exp = hmac.new(secret.encode(), total.encode("utf-8"), hashlib.sha256).hexdigest()
    return sig, exp


def bitstamp_expected_signature(secret: str, key: str, rec: Received) -> Tuple[Optional[str], str, str]:
    host = (rec.header("Host") or "").rsplit(":", 1)[0]
    message = "BITSTAMP " + key
    message += rec.method.upper()
    message += host
    message += rec.path
    message += rec.raw_query
    message += rec.header("Content-Type") or ""
    message += rec.header("X-Auth-Nonce") or ""
    message += rec.header("X-Auth-Timestamp") or ""
    message += rec.header("X-Auth-Version") or ""
    message += rec.body.decode("utf-8", "replace")
    exp = hmac.new(secret.encode(), message.encode("utf-8"), hashlib.sha256).hexdigest()
    return rec.header("X-Auth-Signature"), exp.lower(), message
