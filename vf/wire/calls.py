"""Catalog of REST entry points of the Binance and Bitstamp clients (client level, request objects, exchange level),
argument generators, and for every call the documented method / path / parameter table (transcribed from the
docstrings' referenced API) that C17 compares with what the loopback server received."""
from __future__ import annotations

from decimal import Decimal as D
from typing import Any, Dict, List, Optional, Tuple

KEY, SECRET = "test-api-key-0123456789", "s3cr3t/with+special=chars&more"

BASE_ALPHABET = "ABCDEFGHIJKLMNOPQRSTUVWXYZabcdefghijklmnopqrstuvwxyz0123456789-_"
BINANCE_EXTRA = ".:/"                       # Binance's historical newClientOrderId pattern ^[\.A-Z\:/a-z0-9_-]{1,36}$
HOSTILE = " +&=%#?@~'\"()*,;!$[]{}|\\^`<>"
NON_ASCII = "éñ日本€"

DECIMALS = [
    "1", "0.5", "100", "0.00000085", "8.5E-7", "1E+3", "1E3", "1.20E+2", "0.10", "1.000", "123456.789", "1e-8",
    "0.000000000001", "1E-12", "999999999999", "1E+12", "5E-1", "12345678.12345678", "0.00001000", "7E+0",
]


def gen_decimal(r) -> str:
    x = r.random()
    if x < 0.5:
        return r.choice(DECIMALS)
    if x < 0.7:
        exp = r.randint(-12, 12)
        return f"{r.randint(1, 9999)}E{exp:+d}"
    if x < 0.85:
        return format(D(r.randint(1, 10 ** 12)).scaleb(-r.randint(0, 12)), "f")
    return str(D(r.randint(1, 10 ** 9)).scaleb(-r.randint(0, 10)).normalize())


def gen_client_id(r) -> str:
    cls = r.choice(["base", "base", "binance", "binance", "hostile", "nonascii"])
    n = r.randint(1, 20)
    if cls == "base":
        alpha = BASE_ALPHABET
    elif cls == "binance":
        alpha = BASE_ALPHABET + BINANCE_EXTRA * 6
    elif cls == "hostile":
        alpha = BASE_ALPHABET + HOSTILE * 3
    else:
        alpha = BASE_ALPHABET + NON_ASCII * 4
    s = "".join(r.choice(alpha) for _ in range(n))
    return s.strip() or "x"


def id_class(s: str) -> str:
    if any(c in NON_ASCII for c in s):
        return "nonascii"
    if any(c in HOSTILE for c in s):
        return "hostile"
    if any(c in BINANCE_EXTRA for c in s):
        return "binance"
    return "base"


def dec_class(s: str) -> str:
    d = D(s)
    plain = format(d, "f")
    return ("exp" if str(d) != plain else "plain") + ("_small" if d < D("0.000001") else "_big" if d >= 10 ** 9 else "")


# ---------------------------------------------------------------------------------------------
# spec generation
# ---------------------------------------------------------------------------------------------

EXTRA_VALUES = [5, True, 1.5, "A B&c=d/\u00e9", "EXPIRE_TAKER", ["A", "B"], ["x y", "\u00e9&=", "z"], ["only"], 0]


def gen_spec(r, client: Optional[str] = None) -> Dict[str, Any]:
    client = client or r.choice(["binance", "binance", "bitstamp"])
    if client == "binance":
        acct = r.choice(["spot", "cross", "isolated"])
        name = r.choice(["create_order", "create_order", "x_market", "x_limit", "x_stop_limit", "x_oco", "create_oco",
                         "query_order", "cancel_order", "open_orders", "trades", "query_oco", "cancel_oco",
                         "account_info", "listen_key", "keep_alive", "transfer_in", "transfer_out", "x_order_info",
                         "x_cancel", "x_open_orders", "req_limit"])
        if acct == "spot" and name in ("transfer_in", "transfer_out"):
            name = "create_order"
        a: Dict[str, Any] = {"acct": acct}
        side = r.choice(["BUY", "SELL"])
        a["side"] = side
        a["base"], a["quote"] = r.choice([("BTC", "USDT"), ("ETH", "BTC"), ("bnb", "usdt")])
        if r.random() < 0.8:
            a["cid"] = gen_client_id(r)
        a["amount"] = gen_decimal(r)
        a["price"] = gen_decimal(r)
        a["stop"] = gen_decimal(r)
        a["stop_limit"] = gen_decimal(r) if r.random() < 0.6 else None
        a["quote_amount"] = gen_decimal(r) if r.random() < 0.3 else None
        a["order_id"] = r.randint(1, 10 ** 12) if "cid" not in a or r.random() < 0.3 else None
        a["tif"] = r.choice(["GTC", "IOC", "FOK"])
        a["type"] = r.choice(["MARKET", "LIMIT", "STOP_LOSS_LIMIT", "TAKE_PROFIT_LIMIT", "LIMIT_MAKER"])
        a["kwargs"] = {}
        if r.random() < 0.3:
            a["kwargs"]["newOrderRespType"] = r.choice(["ACK", "RESULT", "FULL"])
        if r.random() < 0.2:
            a["kwargs"]["icebergQty"] = {"decimal": gen_decimal(r)}
        if acct != "spot" and r.random() < 0.4:
            a["side_effect"] = r.choice(["MARGIN_BUY", "AUTO_REPAY", "NO_SIDE_EFFECT"])
        if r.random() < 0.25:
            # keyword arguments are forwarded as they are: any value type a caller may pass, sequences included
            a["kwargs"][r.choice(["selfTradePreventionMode", "strategyId", "futureOption"])] = r.choice(EXTRA_VALUES)
        return {"client": "binance", "name": name, "args": a}
    name = r.choice(["market", "limit", "limit", "instant", "x_market", "x_limit", "x_instant", "order_status", "cancel",
                     "open_orders", "balances", "balance", "ws_token", "x_order_info", "x_cancel", "req_limit"])
    a = {"action": r.choice(["buy", "sell"]), "base": r.choice(["BTC", "eth"]), "quote": r.choice(["USD", "eur"]),
         "amount": gen_decimal(r), "price": gen_decimal(r), "kwargs": {}}
    if r.random() < 0.8:
        a["cid"] = gen_client_id(r)
    a["order_id"] = r.randint(1, 10 ** 15)
    a["by_cid"] = "cid" in a and r.random() < 0.5
    a["omit_tx"] = r.choice([None, True, False])
    a["in_counter"] = r.random() < 0.3
    if r.random() < 0.3:
        a["kwargs"][r.choice(["daily_order", "ioc_order", "fok_order", "moc_order"])] = True
    if r.random() < 0.3 and name == "limit":
        # Bitstamp's optional limit_price (opposite order) - only reachable through the raw client: the exchange-level
        # helper uses the same keyword for its own positional parameter
        a["kwargs"]["limit_price"] = {"decimal": gen_decimal(r)}
    if r.random() < 0.25:
        a["kwargs"][r.choice(["margin_mode", "leverage", "future_option"])] = r.choice(EXTRA_VALUES)
    return {"client": "bitstamp", "name": name, "args": a}


def _kw(a: Dict[str, Any]) -> Dict[str, Any]:
    return {k: (D(v["decimal"]) if isinstance(v, dict) else v) for k, v in a.get("kwargs", {}).items()}


# ---------------------------------------------------------------------------------------------
# invocation + expected table
# ---------------------------------------------------------------------------------------------

CURRENT: Dict[str, Any] = {"expect": None}


class Expect:
    """What the documented API says the request must look like."""

    def __init__(self, method: str, path: str, auth: str, where: str = "body"):
        CURRENT["expect"] = self    # the loopback server answers with the reply scripted for the call in progress
        self.method, self.path, self.auth, self.where = method, path, auth, where
        self.equal: Dict[str, str] = {}       # param -> exact string
        self.decimals: Dict[str, D] = {}      # param -> numeric value that must arrive in plain notation
        self.absent: List[str] = []           # params that must not be transmitted
        self.multi: Dict[str, List[str]] = {}  # param -> values of a sequence-valued argument, one field each
        self.reply: Any = {}


async def invoke(spec: Dict[str, Any], bn, bs, bn_ex, bs_ex) -> Tuple[Expect, Any]:
    """Performs the call on the real client objects; returns (expectation, result)."""
    from basana.core.pair import Pair
    from basana.core.enums import OrderOperation as Op
    a = spec["args"]
    name = spec["name"]
    kw = _kw(a)
    cid = a.get("cid")
    if spec["client"] == "binance":
        acct = a["acct"]
        cli = {"spot": bn.spot_account, "cross": bn.cross_margin_account, "isolated": bn.isolated_margin_account}[acct]
        xacct = {"spot": bn_ex.spot_account, "cross": bn_ex.cross_margin_account, "isolated": bn_ex.isolated_margin_account}[acct]
        sym = (a["base"] + a["quote"]).upper()
        pair = Pair(a["base"], a["quote"])
        op = Op.BUY if a["side"] == "BUY" else Op.SELL
        order_path = "/api/v3/order" if acct == "spot" else "/sapi/v1/margin/order"
        oco_path = "/api/v3/order/oco" if acct == "spot" else "/sapi/v1/margin/order/oco"
        olist_path = "/api/v3/orderList" if acct == "spot" else "/sapi/v1/margin/orderList"
        mkw = {"side_effect_type": a["side_effect"]} if acct != "spot" and a.get("side_effect") else {}

        def dec_kwargs(e: Expect, exchange_level: bool = False):
            for k, v in kw.items():
                if isinstance(v, D):
                    e.decimals[k] = v
                elif isinstance(v, (list, tuple)):
                    e.multi[k] = [str(x) for x in v]
                else:
                    e.equal[k] = str(v)
            if mkw:
                e.equal["sideEffectType"] = mkw["side_effect_type"]
            elif acct != "spot" and exchange_level:
                e.equal["sideEffectType"] = "NO_SIDE_EFFECT"     # documented default of the exchange-level helpers
            elif acct != "spot":
                e.absent.append("sideEffectType")

        if name == "create_order":
            e = Expect("POST", order_path, "sig")
            t = a["type"]
            args = dict(time_in_force=a["tif"] if t != "MARKET" else None,
                        quantity=D(a["amount"]) if not (t == "MARKET" and a["quote_amount"]) else None,
                        quote_order_qty=D(a["quote_amount"]) if t == "MARKET" and a["quote_amount"] else None,
                        price=D(a["price"]) if t != "MARKET" else None,
                        stop_price=D(a["stop"]) if "STOP" in t or "TAKE" in t else None, new_client_order_id=cid)
            e.equal.update({"symbol": sym, "side": a["side"], "type": t})
            for pname, key in (("quantity", "quantity"), ("quoteOrderQty", "quote_order_qty"), ("price", "price"),
                               ("stopPrice", "stop_price")):
                if args[key] is not None:
                    e.decimals[pname] = args[key]
                else:
                    e.absent.append(pname)
            if args["time_in_force"]:
                e.equal["timeInForce"] = args["time_in_force"]
            else:
                e.absent.append("timeInForce")
            if cid is not None:
                e.equal["newClientOrderId"] = cid
            else:
                e.absent.append("newClientOrderId")
            dec_kwargs(e)
            return e, await cli.create_order(sym, a["side"], t, **args, **mkw, **kw)
        if name in ("x_market", "x_limit", "x_stop_limit", "req_limit"):
            e = Expect("POST", order_path, "sig")
            e.equal.update({"symbol": sym, "side": a["side"]})
            if cid is not None:
                e.equal["newClientOrderId"] = cid
            else:
                e.absent.append("newClientOrderId")
            dec_kwargs(e, exchange_level=True)
            if name == "x_market":
                e.equal["type"] = "MARKET"
                e.absent += ["price", "stopPrice", "timeInForce"]
                if a["quote_amount"]:
                    e.decimals["quoteOrderQty"] = D(a["quote_amount"])
                    e.absent.append("quantity")
                    return e, await xacct.create_market_order(op, pair, quote_amount=D(a["quote_amount"]),
                                                              client_order_id=cid, **mkw, **kw)
                e.decimals["quantity"] = D(a["amount"])
                e.absent.append("quoteOrderQty")
                return e, await xacct.create_market_order(op, pair, amount=D(a["amount"]), client_order_id=cid, **mkw, **kw)
            if name in ("x_limit", "req_limit"):
                e.equal.update({"type": "LIMIT", "timeInForce": a["tif"]})
                e.decimals.update({"quantity": D(a["amount"]), "price": D(a["price"])})
                e.absent += ["stopPrice", "quoteOrderQty"]
                if name == "req_limit":
                    from basana.external.binance import spot_requests, margin_requests
                    mod = spot_requests if acct == "spot" else margin_requests
                    req = mod.LimitOrder(op, pair, D(a["amount"]), D(a["price"]), time_in_force=a["tif"],
                                         client_order_id=cid, **mkw, **kw)
                    return e, await xacct.create_order(req)
                return e, await xacct.create_limit_order(op, pair, D(a["amount"]), D(a["price"]), time_in_force=a["tif"],
                                                         client_order_id=cid, **mkw, **kw)
            e.equal.update({"type": "STOP_LOSS_LIMIT", "timeInForce": a["tif"]})
            e.decimals.update({"quantity": D(a["amount"]), "price": D(a["price"]), "stopPrice": D(a["stop"])})
            return e, await xacct.create_stop_limit_order(op, pair, D(a["amount"]), D(a["stop"]), D(a["price"]),
                                                          time_in_force=a["tif"], client_order_id=cid, **mkw, **kw)
        if name in ("create_oco", "x_oco"):
            e = Expect("POST", oco_path, "sig")
            e.equal.update({"symbol": sym, "side": a["side"]})
            e.decimals.update({"quantity": D(a["amount"]), "price": D(a["price"]), "stopPrice": D(a["stop"])})
            if a["stop_limit"]:
                e.decimals["stopLimitPrice"] = D(a["stop_limit"])
                e.equal["stopLimitTimeInForce"] = a["tif"]
            else:
                e.absent += ["stopLimitPrice", "stopLimitTimeInForce"]
            if cid is not None:
                e.equal["listClientOrderId"] = cid
                e.equal["limitClientOrderId"] = cid + "L"
            else:
                e.absent += ["listClientOrderId", "limitClientOrderId"]
            e.absent.append("stopClientOrderId")
            dec_kwargs(e, exchange_level=(name == "x_oco"))
            sl = D(a["stop_limit"]) if a["stop_limit"] else None
            if name == "create_oco":
                return e, await cli.create_oco(sym, a["side"], D(a["amount"]), D(a["price"]), D(a["stop"]),
                                               stop_limit_price=sl, stop_limit_time_in_force=a["tif"] if sl else None,
                                               list_client_order_id=cid,
                                               limit_client_order_id=None if cid is None else cid + "L", **mkw, **kw)
            return e, await xacct.create_oco_order(op, pair, D(a["amount"]), D(a["price"]), D(a["stop"]),
                                                   stop_limit_price=sl, stop_limit_time_in_force=a["tif"],
                                                   list_client_order_id=cid,
                                                   limit_client_order_id=None if cid is None else cid + "L", **mkw, **kw)
        by_cid = cid is not None and a["order_id"] is None
        if name in ("query_order", "cancel_order", "x_cancel", "x_order_info"):
            method = "GET" if name in ("query_order", "x_order_info") else "DELETE"
            e = Expect(method, order_path, "sig", where="query")
            e.equal["symbol"] = sym
            if by_cid:
                e.equal["origClientOrderId"] = cid
                e.absent.append("orderId")
            else:
                oid = a["order_id"] or 7
                e.equal["orderId"] = str(oid)
                e.absent.append("origClientOrderId")
            e.reply = {"orderId": 42}
            if name == "query_order":
                return e, await cli.query_order(sym, order_id=None if by_cid else (a["order_id"] or 7),
                                                orig_client_order_id=cid if by_cid else None)
            if name == "cancel_order":
                return e, await cli.cancel_order(sym, order_id=None if by_cid else (a["order_id"] or 7),
                                                 orig_client_order_id=cid if by_cid else None)
            if name == "x_cancel":
                return e, await xacct.cancel_order(pair, order_id=None if by_cid else str(a["order_id"] or 7),
                                                   client_order_id=cid if by_cid else None)
            return e, await xacct.get_order_info(pair, order_id=None if by_cid else str(a["order_id"] or 7),
                                                 client_order_id=cid if by_cid else None, include_trades=False)
        if name in ("open_orders", "x_open_orders"):
            e = Expect("GET", "/api/v3/openOrders" if acct == "spot" else "/sapi/v1/margin/openOrders", "sig", where="query")
            e.equal["symbol"] = sym
            e.reply = []
            if name == "open_orders":
                return e, await cli.get_open_orders(sym)
            return e, await xacct.get_open_orders(pair)
        if name == "trades":
            e = Expect("GET", "/api/v3/myTrades" if acct == "spot" else "/sapi/v1/margin/myTrades", "sig", where="query")
            e.equal["symbol"] = sym
            if a["order_id"]:
                e.equal["orderId"] = str(a["order_id"])
            else:
                e.absent.append("orderId")
            e.reply = []
            return e, await cli.get_trades(sym, order_id=a["order_id"])
        if name in ("query_oco", "cancel_oco"):
            if name == "query_oco":
                e = Expect("GET", olist_path, "sig", where="query")
            else:
                e = Expect("DELETE", olist_path, "sig", where="body")
                e.equal["symbol"] = sym
            if by_cid:
                e.equal["origClientOrderId"] = cid
                e.absent.append("orderListId")
            else:
                e.equal["orderListId"] = str(a["order_id"] or 7)
                e.absent.append("origClientOrderId")
            kwargs = dict(order_list_id=None if by_cid else (a["order_id"] or 7), client_order_list_id=cid if by_cid else None)
            if name == "query_oco":
                return e, await cli.query_oco_order(**kwargs)
            return e, await cli.cancel_oco_order(sym, **kwargs)
        if name == "account_info":
            p = {"spot": "/api/v3/account", "cross": "/sapi/v1/margin/account", "isolated": "/sapi/v1/margin/isolated/account"}[acct]
            e = Expect("GET", p, "sig", where="query")
            return e, await cli.get_account_information()
        if name in ("listen_key", "keep_alive"):
            p = {"spot": "/api/v3/userDataStream", "cross": "/sapi/v1/userDataStream", "isolated": "/sapi/v1/userDataStream/isolated"}[acct]
            e = Expect("POST" if name == "listen_key" else "PUT", p, "key")
            e.reply = {"listenKey": "lk"}
            lk = cid or "listenkey123"
            if name == "listen_key":
                if acct == "isolated":
                    e.equal["symbol"] = sym
                    return e, await cli.create_listen_key(sym)
                return e, await cli.create_listen_key()
            e.equal["listenKey"] = lk
            if acct == "isolated":
                e.equal["symbol"] = sym
                return e, await cli.keep_alive_listen_key(sym, lk)
            return e, await cli.keep_alive_listen_key(lk)
        if name in ("transfer_in", "transfer_out"):
            asset = a["base"].upper()
            if acct == "cross":
                e = Expect("POST", "/sapi/v1/margin/transfer", "sig")
                e.equal.update({"asset": asset, "type": "1" if name == "transfer_in" else "2"})
                e.decimals["amount"] = D(a["amount"])
                f = xacct.transfer_from_spot_account if name == "transfer_in" else xacct.transfer_to_spot_account
                return e, await f(asset, D(a["amount"]))
            e = Expect("POST", "/sapi/v1/margin/isolated/transfer", "sig")
            e.equal.update({"asset": asset, "symbol": sym,
                            "transFrom": "SPOT" if name == "transfer_in" else "ISOLATED_MARGIN",
                            "transTo": "ISOLATED_MARGIN" if name == "transfer_in" else "SPOT"})
            e.decimals["amount"] = D(a["amount"])
            f = xacct.transfer_from_spot_account if name == "transfer_in" else xacct.transfer_to_spot_account
            return e, await f(asset, pair, D(a["amount"]))
        raise KeyError(name)

    # ---- bitstamp ----------------------------------------------------------------------------
    from basana.external.bitstamp import requests as bs_requests
    cp = (a["base"] + a["quote"]).lower()
    pair = Pair(a["base"], a["quote"])
    op = Op.BUY if a["action"] == "buy" else Op.SELL

    def common(e: Expect):
        if cid is not None:
            e.equal["client_order_id"] = cid
        else:
            e.absent.append("client_order_id")
        for k, v in kw.items():
            if isinstance(v, D):
                e.decimals[k] = v
            elif isinstance(v, (list, tuple)):
                e.multi[k] = [str(x) for x in v]
            else:
                e.equal[k] = str(v)

    if name in ("market", "x_market"):
        e = Expect("POST", f"/api/v2/{a['action']}/market/{cp}/", "bitstamp")
        e.decimals["amount"] = D(a["amount"])
        e.absent.append("price")
        common(e)
        e.reply = {"id": "1", "datetime": "2024-01-01 00:00:00.000000", "type": "0", "price": "1", "amount": "1"}
        if name == "market":
            return e, await bs.create_market_order(a["action"], cp, D(a["amount"]), client_order_id=cid, **kw)
        return e, await bs_ex.create_market_order(op, pair, D(a["amount"]), client_order_id=cid, **kw)
    if name in ("limit", "x_limit", "req_limit"):
        e = Expect("POST", f"/api/v2/{a['action']}/{cp}/", "bitstamp")
        e.decimals.update({"amount": D(a["amount"]), "price": D(a["price"])})
        common(e)
        if name == "limit":
            return e, await bs.create_limit_order(a["action"], cp, D(a["amount"]), D(a["price"]), client_order_id=cid, **kw)
        if name == "req_limit":
            return e, await bs_ex.create_order(bs_requests.LimitOrder(op, pair, D(a["amount"]), D(a["price"]),
                                                                      client_order_id=cid, **kw))
        return e, await bs_ex.create_limit_order(op, pair, D(a["amount"]), D(a["price"]), client_order_id=cid, **kw)
    if name in ("instant", "x_instant"):
        action = a["action"]
        in_counter = a["in_counter"] and action == "sell"
        e = Expect("POST", f"/api/v2/{action}/instant/{cp}/", "bitstamp")
        e.decimals["amount"] = D(a["amount"])
        e.absent.append("price")
        if in_counter:
            e.equal["amount_in_counter"] = "True"
        common(e)
        if name == "instant":
            return e, await bs.create_instant_order(action, cp, D(a["amount"]), amount_in_counter=in_counter,
                                                    client_order_id=cid, **kw)
        return e, await bs_ex.create_instant_order(op, pair, D(a["amount"]), amount_in_counter=in_counter,
                                                   client_order_id=cid, **kw)
    if name in ("order_status", "x_order_info"):
        e = Expect("POST", "/api/v2/order_status/", "bitstamp")
        by_cid = a["by_cid"] and name == "order_status"
        if by_cid:
            e.equal["client_order_id"] = cid
            e.absent.append("id")
        else:
            e.equal["id"] = str(a["order_id"])
            e.absent.append("client_order_id")
        e.reply = {"id": a["order_id"], "status": "Open", "amount_remaining": "1", "transactions": []}
        if name == "order_status":
            if a["omit_tx"]:
                e.equal["omit_transactions"] = "True"
            else:
                e.absent.append("omit_transactions")
            return e, await bs.get_order_status(id=None if by_cid else a["order_id"], client_order_id=cid if by_cid else None,
                                                omit_transactions=a["omit_tx"])
        return e, await bs_ex.get_order_info(pair, order_id=str(a["order_id"]))
    if name in ("cancel", "x_cancel"):
        e = Expect("POST", "/api/v2/cancel_order/", "bitstamp")
        e.equal["id"] = str(a["order_id"])
        e.reply = {"id": a["order_id"], "amount": "1", "price": "1", "type": 0}
        if name == "cancel":
            return e, await bs.cancel_order(a["order_id"])
        return e, await bs_ex.cancel_order(a["order_id"])
    if name == "open_orders":
        allp = a["in_counter"]
        e = Expect("POST", "/api/v2/open_orders/{}/".format("all" if allp else cp), "bitstamp")
        e.reply = []
        return e, await bs.get_open_orders(None if allp else cp)
    if name == "balances":
        e = Expect("POST", "/api/v2/account_balances/", "bitstamp")
        e.reply = []
        return e, await bs.get_account_balances()
    if name == "balance":
        e = Expect("POST", f"/api/v2/account_balances/{a['base'].lower()}/", "bitstamp")
        return e, await bs.get_account_balance(a["base"].lower())
    if name == "ws_token":
        e = Expect("POST", "/api/v2/websockets_token/", "bitstamp")
        e.reply = {"token": "t", "user_id": 1}
        return e, await bs.get_websocket_auth_token()
    raise KeyError(name)
