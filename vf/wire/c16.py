"""C16 - signed requests verify against the bytes actually sent (DESIGN.md section 5, C16).

The real Binance / Bitstamp clients (aiohttp stack included) talk to a loopback server that recomputes the
signature exactly as the exchange does: from the raw request line, headers and body it received.
"""
from __future__ import annotations

import asyncio
import re
import time
from typing import Any, Dict, List, Optional

from vf import common, sentinel
from vf.common import Context, Plan, ShardResult, Violation
from vf.wire import calls, server

LEVELS = {"C16": "exploration", "C17": "exploration"}
RULES = {"C16": (
    "case = one authenticated call (every signed / key-only endpoint of the spot, cross-margin and isolated-margin "
    "Binance clients and every authenticated Bitstamp endpoint, at client, request-object and exchange level) with "
    "generated arguments: symbols, decimals of any exponent, client ids over [A-Za-z0-9-_], Binance's historical "
    "alphabet (. : /), URL-hostile ASCII and non-ASCII, extra keyword arguments. Non-trivial: a signed request "
    "carrying >= 1 value that needs escaping (outside [A-Za-z0-9-_]) or a decimal whose str() is not plain. "
    "Distinct = (endpoint, account kind, where parameters travel, id class, decimal class).")}
ASSUMPTIONS = {"C16": [
    "the loopback peer verifies like the exchanges: Binance HMAC-SHA256 over the received query string minus the "
    "signature parameter followed by the received body; Bitstamp v2 message from received method, Host (port removed), "
    "path, query, content type, nonce, timestamp, version, body",
    "timestamps are bracketed by time.time() read immediately before and after the call (no wall-clock deadline)",
]}
WATCH = ["basana.external.binance.client.base", "basana.external.binance.helpers", "basana.external.binance.client.spot",
         "basana.external.binance.client.margin", "basana.external.bitstamp.client", "basana.external.bitstamp.helpers"]

HEX64 = re.compile(r"^[0-9a-fA-F]{64}$")


def plan(prop: str, tier: str) -> Plan:
    if tier == "quick":
        return Plan(shards=4, cases_per_shard=2500, timeout_s=600)
    return Plan(shards=16, cases_per_shard=100000, timeout_s=3000)


class Session:
    """Real clients + loopback server inside one event loop."""

    def __init__(self, key: str = calls.KEY, secret: str = calls.SECRET, prefix: str = "", debug_logging: bool = False):
        self.key, self.secret = key, secret
        self.prefix = prefix            # e.g. "gateway/": the configured base URL carries a path of its own
        self.debug_logging = debug_logging
        self._old_level = None

    async def __aenter__(self):
        import aiohttp
        from basana.core import dispatcher
        from basana.external.binance import client as bn_client, exchange as bn_exchange
        from basana.external.bitstamp import client as bs_client, exchange as bs_exchange
        self.srv = server.Loopback()
        base = await self.srv.start()
        self.srv.reply = lambda m, p: (calls.CURRENT["expect"].reply if calls.CURRENT["expect"] is not None else {})
        ov = {"api": {"http": {"base_url": base + self.prefix, "timeout": 30}}}
        if self.debug_logging:
            import logging
            lg = logging.getLogger("basana")
            self._old_level = lg.level
            lg.setLevel(logging.DEBUG)      # the messages go nowhere; logging is not behaviour
        self.http = aiohttp.ClientSession()
        self.bn = bn_client.APIClient(self.key, self.secret, session=self.http, config_overrides=ov)
        self.bs = bs_client.APIClient(self.key, self.secret, session=self.http, config_overrides=ov)
        d = dispatcher.realtime_dispatcher()
        self.bn_ex = bn_exchange.Exchange(d, self.key, self.secret, session=self.http, config_overrides=ov)
        self.bs_ex = bs_exchange.Exchange(d, self.key, self.secret, session=self.http, config_overrides=ov)
        return self

    async def __aexit__(self, *a):
        if self._old_level is not None:
            import logging
            logging.getLogger("basana").setLevel(self._old_level)
        await self.http.close()
        await self.srv.stop()

    async def call(self, spec: Dict[str, Any]):
        n0 = len(self.srv.requests)
        t0 = time.time()
        err = None
        exp = None
        try:
            exp, _ = await calls.invoke(spec, self.bn, self.bs, self.bn_ex, self.bs_ex)
        except Exception as ex:  # the call itself failing is an observation, judged by the monitors
            err = ex
            exp = calls.CURRENT["expect"]
        t1 = time.time()
        return exp, self.srv.requests[n0:], t0, t1, err


def check_auth(spec, exp, recs, t0, t1, err, nonces: set, key: str = calls.KEY, secret: str = calls.SECRET) -> List[tuple]:
    out: List[tuple] = []
    if err is not None and not recs:
        out.append(("request_not_sent", f"{type(err).__name__}: {err}"))
        return out
    if not recs:
        out.append(("request_not_sent", "no request reached the server"))
        return out
    rec = recs[-1]
    if spec["client"] == "binance":
        if exp.auth in ("sig", "key"):
            if rec.header("X-MBX-APIKEY") != key:
                out.append(("api_key_missing", f"X-MBX-APIKEY = {rec.header('X-MBX-APIKEY')!r}"))
        if exp.auth == "sig":
            sig, want = server.binance_expected_signature(secret, rec)
            if sig is None:
                out.append(("signature_missing", f"no signature parameter in {rec.raw_query[:120]!r}"))
            elif not HEX64.match(sig) or sig.lower() != want:
                out.append(("signature_mismatch",
                            f"{rec.method} {rec.path}: received signature does not verify against the received query "
                            f"string {rec.raw_query[:200]!r} + body {rec.body[:200]!r}"))
            import urllib.parse
            qs = dict(urllib.parse.parse_qsl(rec.raw_query, keep_blank_values=True))
            ts = qs.get("timestamp")
            if ts is None or not ts.isdigit():
                out.append(("timestamp_missing", f"timestamp = {ts!r}"))
            elif not (int(t0 * 1000) - 2 <= int(ts) <= int(t1 * 1000) + 2):
                out.append(("timestamp_not_current", f"timestamp {ts} outside [{int(t0 * 1000)}, {int(t1 * 1000)}]"))
    else:
        if exp.auth == "bitstamp":
            sig, want, message = server.bitstamp_expected_signature(secret, key, rec)
            if rec.header("X-Auth") != "BITSTAMP " + key:
                out.append(("api_key_missing", f"X-Auth = {rec.header('X-Auth')!r}"))
            if sig is None or sig.lower() != want:
                out.append(("signature_mismatch", f"{rec.method} {rec.path}: X-Auth-Signature does not verify against the "
                                                  f"v2 message built from the received request ({message[:160]!r}...)"))
            if rec.header("X-Auth-Version") != "v2":
                out.append(("version_header", f"X-Auth-Version = {rec.header('X-Auth-Version')!r}"))
            nonce = rec.header("X-Auth-Nonce")
            if not nonce or len(nonce) != 36 or nonce != nonce.lower():
                out.append(("nonce_format", f"nonce {nonce!r} is not a lowercase 36-character string"))
            elif nonce in nonces:
                out.append(("nonce_repeated", f"nonce {nonce} was already used"))
            else:
                nonces.add(nonce)
            ts = rec.header("X-Auth-Timestamp")
            if ts is None or not ts.isdigit():
                out.append(("timestamp_missing", f"X-Auth-Timestamp = {ts!r}"))
            elif not (int(t0 * 1000) - 2 <= int(ts) <= int(t1 * 1000) + 2):
                out.append(("timestamp_not_current", f"timestamp {ts} outside [{int(t0 * 1000)}, {int(t1 * 1000)}]"))
            if not rec.body and rec.header("Content-Type"):
                out.append(("content_type_without_body", f"Content-Type {rec.header('Content-Type')!r} sent with an empty body"))
    return out


def classify(spec, kind: str, rec) -> str:
    # known mechanism: a signed Binance *query string* whose values contain characters that urlencode escapes but
    # yarl transmits verbatim
    if kind == "signature_mismatch" and spec["client"] == "binance" and rec is not None and not rec.body:
        import urllib.parse
        parsed = urllib.parse.parse_qsl(rec.raw_query, keep_blank_values=True)
        if urllib.parse.urlencode(parsed) != rec.raw_query:
            return "signed_query_reencoded_by_transport"
    # known mechanism: a sequence-valued keyword argument is transmitted as repeated form fields but signed as the
    # repr() of the sequence
    if kind == "signature_mismatch" and rec is not None and any(
            isinstance(v, (list, tuple)) and (k + "=").encode() in rec.body for k, v in spec["args"].get("kwargs", {}).items()):
        return "sequence_argument_signed_as_repr"
    return ""


async def concurrent_burst(s, res: ShardResult, nonces: set, n: int) -> None:
    """Several authenticated requests in flight at once on one client (asyncio.gather): every one must carry its own
    nonce and verify; a request whose connection dies before the reply must not make the next one reuse its nonce."""
    n0 = len(s.srv.requests)
    t0 = time.time()
    calls.CURRENT["expect"] = None
    await asyncio.gather(*[s.bs.get_account_balances() if i % 2 else s.bs.get_open_orders("btcusd") for i in range(n)],
                         return_exceptions=True)
    t1 = time.time()
    recs = s.srv.requests[n0:]
    res.count("concurrent_requests", len(recs))
    seen = []
    for rec in recs:
        sig, want, message = server.bitstamp_expected_signature(s.secret, s.key, rec)
        nonce = rec.header("X-Auth-Nonce")
        if sig is None or sig.lower() != want:
            res.violate(Violation("C16", "signature_mismatch", f"concurrent bitstamp {rec.path}: signature does not verify",
                                  scenario={"burst": n}))
        if nonce in nonces or nonce in seen:
            res.violate(Violation("C16", "nonce_repeated", f"nonce {nonce} used by more than one of {n} concurrent "
                                                          f"bitstamp requests", scenario={"burst": n}))
        seen.append(nonce)
        ts = rec.header("X-Auth-Timestamp")
        if ts is None or not ts.isdigit() or not (int(t0 * 1000) - 2 <= int(ts) <= int(t1 * 1000) + 2):
            res.violate(Violation("C16", "timestamp_not_current", f"concurrent bitstamp request timestamp {ts}",
                                  scenario={"burst": n}))
    nonces.update(x for x in seen if x)
    if len(recs) == n:
        res.nontrivial.add(common.digest(["burst", n]))


async def run_cases(specs: List[Dict[str, Any]], res: ShardResult, prop: str = "C16", key: str = calls.KEY,
                    secret: str = calls.SECRET, nonces: Optional[set] = None, prefix: str = "",
                    debug_logging: bool = False) -> None:
    nonces = set() if nonces is None else nonces
    res.count("sessions:" + common.digest([key, secret, prefix, debug_logging], 6))
    async with Session(key, secret, prefix, debug_logging) as s:
        for idx, spec in enumerate(specs):
            if spec.get("burst"):
                await concurrent_burst(s, res, nonces, spec["burst"])
                res.evaluations += 1
                continue
            if idx % 97 == 5:
                await concurrent_burst(s, res, nonces, 2 + idx % 7)
            if idx % 29 == 3:
                # the application re-seeds the process-wide random generator (reproducible strategies do): nonces must
                # not depend on it
                import random as _random
                _random.seed(20240101)
                res.count("global_rng_reseeded")
            if idx % 41 == 7:
                s.srv.drop_next = 1       # the peer receives this request and drops the connection without replying
            exp, recs, t0, t1, err = await s.call(spec)
            if s.srv.drop_next:
                s.srv.drop_next = 0       # the call never reached the server (validation error): nothing to drop
            elif idx % 41 == 7:
                res.count("requests_dropped_by_peer")
            res.evaluations += 1
            res.count("requests_received", len(recs))
            if exp is None:
                res.errors.append(f"catalog error for {spec['name']}: {err!r}")
                continue
            res.count("auth_" + exp.auth)
            if err is not None:
                res.count("calls_raised")
            # every request the peer received for this call is judged (a call may be transmitted more than once)
            for one_rec in ([[r_] for r_ in recs] or [[]]):
                for kind, msg in check_auth(spec, exp, one_rec, t0, t1, err, nonces, key, secret):
                    res.violate(Violation("C16", kind, f"{spec['client']} {spec['name']} ({spec['args'].get('acct', '')}): {msg}",
                                          scenario=spec, mechanism=classify(spec, kind, one_rec[-1] if one_rec else None)))
            if len(recs) > 1:
                res.count("calls_transmitted_more_than_once")
            res.count("signatures_verified", 1 if exp.auth in ("sig", "bitstamp") else 0)
            cid = spec["args"].get("cid") or ""
            decs = [spec["args"].get(k) for k in ("amount", "price", "stop") if spec["args"].get(k)]
            needs_escape = calls.id_class(cid) != "base"
            nonplain = any(calls.dec_class(d).startswith("exp") for d in decs)
            if exp.auth in ("sig", "bitstamp") and (needs_escape or nonplain):
                res.nontrivial.add(common.digest([spec["client"], spec["name"], spec["args"].get("acct"), exp.where,
                                                  calls.id_class(cid), sorted({calls.dec_class(d) for d in decs})]))
            if recs:
                rec = recs[-1]
                res.sample({"call": f"{spec['client']}.{spec['name']}", "client_order_id": cid,
                            "received": f"{rec.method} {rec.raw_path[:160]}", "body": rec.body.decode('utf-8', 'replace')[:160]})


async def run_cases_dual(specs: List[Dict[str, Any]], res: ShardResult, a: tuple, b: tuple, nonces: set) -> None:
    async with Session(*a) as sa, Session(*b) as sb:
        for idx, spec in enumerate(specs):
            s = sa if idx % 2 == 0 else sb
            exp, recs, t0, t1, err = await s.call(spec)
            res.evaluations += 1
            if exp is None:
                continue
            res.count("dual_account_requests", len(recs))
            for rec in recs:
                for kind, msg in check_auth(spec, exp, [rec], t0, t1, err, nonces, s.key, s.secret):
                    res.violate(Violation("C16", kind, f"two accounts side by side, {spec['client']} {spec['name']} sent by "
                                                       f"account {s.key[:8]}...: {msg}", scenario=dict(spec, dual=True)))


# ---------------------------------------------------------------------------------------------
# "timestamps are current" under throttling: virtual time, in-memory transport
# ---------------------------------------------------------------------------------------------

class _VResp:
    status, ok, reason = 200, True, "OK"
    headers = {"Content-Type": "application/json"}

    async def json(self):
        return {}

    async def __aenter__(self):
        return self

    async def __aexit__(self, *a):
        return False


class _VTransport:
    def __init__(self, loop):
        self.loop = loop
        self.seen: List[tuple] = []

    def _req(self, url, headers=None, params=None, **kw):
        self.seen.append((self.loop.time(), str(url), dict(headers or {}), dict(params or {})))
        return _VResp()

    get = post = put = delete = _req


def run_throttled_case(case: Dict[str, Any], res: ShardResult) -> None:
    """A burst of signed requests through a client with a token bucket: the signed timestamp of every request must be
    the (virtual) instant at which it is sent, not the instant at which the caller asked for it."""
    import urllib.parse
    from vf import vclock
    import basana.core.token_bucket as tb
    with vclock.virtual_time() as loop:
        tr = _VTransport(loop)
        lim = tb.TokenBucketLimiter(case["tpp"], case["period"], case["init"])
        ov = {"api": {"http": {"base_url": "http://x/"}}}
        if case["client"] == "binance":
            from basana.external.binance import client as bn_client
            cli = bn_client.APIClient(calls.KEY, calls.SECRET, session=tr, tb=lim, config_overrides=ov)

            async def call():
                await cli.spot_account.get_open_orders("BTCUSDT")
        else:
            from basana.external.bitstamp import client as bs_client
            cli = bs_client.APIClient(calls.KEY, calls.SECRET, session=tr, tb=lim, config_overrides=ov)

            async def call():
                await cli.get_account_balances()

        async def main():
            await asyncio.gather(*[call() for _ in range(case["n"])])

        loop.run_until_complete(main())
        base_ts = vclock.EPOCH_TS
    res.evaluations += 1
    res.count("throttled_requests", len(tr.seen))
    worst = 0.0
    for (t, url, headers, params) in tr.seen:
        if case["client"] == "binance":
            qs = dict(urllib.parse.parse_qsl(urllib.parse.urlsplit(url).query))
            qs.update({k: str(v) for k, v in params.items()})
            ts = qs.get("timestamp")
        else:
            ts = headers.get("X-Auth-Timestamp")
        if ts is None or not str(ts).isdigit():
            res.violate(Violation("C16", "timestamp_missing", f"{case['client']}: throttled request without timestamp",
                                  scenario={"throttled": case}))
            continue
        age = (base_ts + t) - int(ts) / 1000.0
        worst = max(worst, age)
        if abs(age) > 0.002:
            res.violate(Violation("C16", "timestamp_not_current",
                                  f"{case['client']}: request sent at virtual +{t:.3f}s carries a signed timestamp {age:.3f}s "
                                  f"old (throttled by a {case['tpp']}/{case['period']}s token bucket)",
                                  scenario={"throttled": case}))
            break
    if worst <= 0.002 and len(tr.seen) > case["tpp"]:
        res.nontrivial.add(common.digest(["throttled", case["client"], case["tpp"], case["period"], case["n"]]))


def run_clock_step_case(case: Dict[str, Any], res: ShardResult) -> None:
    """The wall clock is stepped (NTP correction, manual change, resume from suspend) while a long-lived client is in
    use: every signed timestamp is still the wall-clock instant at which its request is sent."""
    import urllib.parse
    from vf import vclock
    with vclock.virtual_time() as loop:
        tr = _VTransport(loop)
        ov = {"api": {"http": {"base_url": "http://x/"}}}
        if case["client"] == "binance":
            from basana.external.binance import client as bn_client
            cli = bn_client.APIClient(calls.KEY, calls.SECRET, session=tr, config_overrides=ov)

            async def call():
                await cli.spot_account.get_open_orders("BTCUSDT")
        else:
            from basana.external.bitstamp import client as bs_client
            cli = bs_client.APIClient(calls.KEY, calls.SECRET, session=tr, config_overrides=ov)

            async def call():
                await cli.get_account_balances()
        walls: List[float] = []

        async def main():
            for gap, step in case["script"]:
                await asyncio.sleep(gap)
                loop.wall_offset = getattr(loop, "wall_offset", 0.0) + step
                walls.append(vclock.EPOCH_TS + loop.time() + loop.wall_offset)
                await call()

        loop.run_until_complete(main())
    res.evaluations += 1
    res.count("requests_after_clock_step", len(tr.seen))
    ok = len(tr.seen) == len(walls)
    for wall, (t, url, headers, params) in zip(walls, tr.seen):
        if case["client"] == "binance":
            qs = dict(urllib.parse.parse_qsl(urllib.parse.urlsplit(url).query))
            qs.update({k: str(v) for k, v in params.items()})
            ts = qs.get("timestamp")
        else:
            ts = headers.get("X-Auth-Timestamp")
        if ts is None or not str(ts).isdigit():
            res.violate(Violation("C16", "timestamp_missing", f"{case['client']}: request without timestamp",
                                  scenario={"clock_step": case}))
            ok = False
            continue
        age = wall - int(ts) / 1000.0
        if abs(age) > 0.002:
            ok = False
            res.violate(Violation("C16", "timestamp_not_current",
                                  f"{case['client']}: request sent at wall-clock {wall:.3f} carries timestamp {int(ts) / 1000.0:.3f} "
                                  f"({age:+.3f}s off) after the wall clock was stepped {case['script']}",
                                  scenario={"clock_step": case}))
            break
    if ok:
        res.nontrivial.add(common.digest(["clock_step", case["client"], [s_ for _, s_ in case["script"]]]))


def gen_clock_step(r) -> Dict[str, Any]:
    return {"client": r.choice(["binance", "bitstamp"]),
            "script": [[r.choice([0.0, 0.25, 3.0, 600.0]), r.choice([0.0, 90.0, -210.0, 0.5, -0.004, 3600.0])]
                       for _ in range(r.randint(2, 5))]}


def gen_throttled(r) -> Dict[str, Any]:
    return {"client": r.choice(["binance", "bitstamp"]), "tpp": r.choice([1, 2, 5]), "period": r.choice([1, 2, 10]),
            "init": r.choice([0, 1]), "n": r.randint(3, 12)}


def run_shard(ctx: Context, res: ShardResult) -> None:
    sen = sentinel.Sentinel(WATCH, lines=False)
    sen.start()
    try:
        specs = [calls.gen_spec(ctx.rng("c16", i)) for i in ctx.case_ids()]
        nonces: set = set()
        asyncio.run(run_cases(specs, res, nonces=nonces))
        # credentials are corrected / rotated without restarting the process: the same API key with another secret,
        # then another key with the first secret - every request verifies under the credentials of the client sending it
        n2 = max(40, len(specs) // 8)
        asyncio.run(run_cases(specs[:n2], res, key=calls.KEY, secret=calls.SECRET[::-1] + "-rotated", nonces=nonces))
        asyncio.run(run_cases(specs[n2:n2 + n2 // 2], res, key="another-" + calls.KEY, secret=calls.SECRET, nonces=nonces))
        # the configured base URL has a path of its own (a gateway or proxy in front of the API); and, separately, the
        # library's loggers at DEBUG level - whatever is transmitted is what is signed, in both set-ups
        asyncio.run(run_cases(specs[:n2], res, nonces=nonces, prefix="gateway/v9/"))
        asyncio.run(run_cases(specs[n2:2 * n2], res, nonces=nonces, debug_logging=True))
        # two accounts (main and sub-account) used side by side in one process: every request carries the key and the
        # signature of the client that sent it
        asyncio.run(run_cases_dual(specs[:n2], res, (calls.KEY, calls.SECRET), ("sub-" + calls.KEY, "sub-" + calls.SECRET), nonces))
        for k in range(max(10, ctx.cases // 100)):
            run_throttled_case(gen_throttled(ctx.rng("c16thr", ctx.shard, k)), res)
        for k in range(max(10, ctx.cases // 100)):
            run_clock_step_case(gen_clock_step(ctx.rng("c16step", ctx.shard, k)), res)
    finally:
        sen.stop()
    for name, n in sen.calls.items():
        res.sentinel("call:" + name, n)


def replay(prop: str, scenario: Dict[str, Any], res: ShardResult) -> None:
    if "throttled" in scenario:
        run_throttled_case(scenario["throttled"], res)
    elif "clock_step" in scenario:
        run_clock_step_case(scenario["clock_step"], res)
    elif scenario.get("dual"):
        sc2 = {k: v for k, v in scenario.items() if k != "dual"}
        asyncio.run(run_cases_dual([sc2, sc2, sc2], res, (calls.KEY, calls.SECRET), ("sub-" + calls.KEY, "sub-" + calls.SECRET), set()))
    else:
        asyncio.run(run_cases([scenario], res))


def finalize(prop: str, tier: str, merged: ShardResult) -> Dict[str, Any]:
    inc = []
    c = merged.counters
    for k, n in (("signatures_verified", 500), ("auth_sig", 200), ("auth_bitstamp", 100), ("auth_key", 10),
                 ("throttled_requests", 100), ("concurrent_requests", 50),
                 ("requests_after_clock_step", 50), ("dual_account_requests", 50), ("requests_dropped_by_peer", 10)):
        if c.get(k, 0) < n:
            inc.append(f"'{k}' observed only {c.get(k, 0)} times (< {n})")
    return {"inconclusive": inc}
