"""C17 - order parameters and exchange payloads cross the wire without loss (DESIGN.md section 5, C17).

Outbound: what the loopback server received for every order entry point is compared with the documented
method / path / parameter table; every decimal must arrive in plain fixed-point notation with exactly the value
that was passed. Inbound: generated REST payloads (through the real client from the loopback server) and websocket
messages (through push_from_message) are decoded by the wrapper classes and compared with exact references.
"""
from __future__ import annotations

import asyncio
import datetime
import re
import urllib.parse
from decimal import Decimal as D
from typing import Any, Dict, List

from vf import common, sentinel
from vf.common import Context, Plan, ShardResult, Violation
from vf.wire import calls
from vf.wire.c16 import Session

LEVELS = {"C17": "exploration"}
RULES = {"C17": (
    "outbound case = one order-entry / query / transfer call (client level, request objects, exchange level; spot, "
    "cross, isolated; Bitstamp market / limit / instant) with decimals of every exponent / normalisation form "
    "(1e-12..1e12, '1E+3', '8.5E-7', trailing zeros); inbound case = one generated payload (REST reply or websocket "
    "message) with arbitrary decimal strings, ms / us timestamps anywhere in 2010-2100 and every documented order "
    "status. Non-trivial: an outbound call with >= 1 decimal whose str() is not plain, or an inbound payload with a "
    "sub-millisecond / far-future timestamp or a non-final status. Distinct = (direction, endpoint or wrapper, decimal "
    "classes, status).")}
ASSUMPTIONS = {"C17": [
    "documented order statuses are the classic sets (Binance NEW, PARTIALLY_FILLED, FILLED, CANCELED, PENDING_CANCEL, "
    "REJECTED, EXPIRED; Bitstamp Open, Finished, Expired, Canceled); the live documentation cannot be fetched here",
    "the endpoint / side / symbol table is transcribed from the API the docstrings reference",
    "boolean / enumerated options that default to a value (amount_in_counter=False, sideEffectType=NO_SIDE_EFFECT) are "
    "not 'unset options'; only None-valued options must be omitted",
]}
WATCH = ["basana.external.binance.client.base", "basana.external.binance.client.spot", "basana.external.binance.client.margin",
         "basana.external.binance.helpers", "basana.external.binance.common", "basana.external.binance.user_data",
         "basana.external.binance.trades", "basana.external.binance.klines", "basana.external.bitstamp.client",
         "basana.external.bitstamp.exchange", "basana.external.bitstamp.orders", "basana.external.bitstamp.trades",
         "basana.external.bitstamp.order_book", "basana.external.binance.order_book"]

PLAIN = re.compile(r"^\d+(\.\d+)?$")
UTC = datetime.timezone.utc
EPOCH = datetime.datetime(1970, 1, 1, tzinfo=UTC)
BN_STATUS = {"NEW": True, "PARTIALLY_FILLED": True, "FILLED": False, "CANCELED": False, "PENDING_CANCEL": True,
             "REJECTED": False, "EXPIRED": False}
BS_STATUS = {"Open": True, "Finished": False, "Expired": False, "Canceled": False}


def plan(prop: str, tier: str) -> Plan:
    # every shard is an interpreter with its own process time zone: decoding must not depend on it
    tzs = [{"TZ": "UTC"}, {"TZ": "EST5EDT"}, {"TZ": "XYZ-5:30"}, {"TZ": "AEST-10AEDT,M10.1.0,M4.1.0/3"}]
    if tier == "quick":
        return Plan(shards=4, cases_per_shard=1200, timeout_s=600, shard_env=tzs)
    return Plan(shards=16, cases_per_shard=120000, timeout_s=3000, shard_env=tzs)


# ---------------------------------------------------------------------------------------------
# outbound
# ---------------------------------------------------------------------------------------------

def check_outbound(spec, exp, recs, err) -> List[tuple]:
    out: List[tuple] = []
    if not recs:
        out.append(("request_not_sent", f"{type(err).__name__}: {err}" if err else "nothing received"))
        return out
    rec = recs[0] if spec["name"] in ("x_order_info",) else recs[-1]
    if rec.method != exp.method or rec.path != exp.path:
        out.append(("wrong_endpoint", f"sent {rec.method} {rec.path}, documented {exp.method} {exp.path}"))
    params: Dict[str, List[str]] = {}
    for src in (rec.raw_query, rec.body.decode("utf-8", "replace")):
        for k, v in urllib.parse.parse_qsl(src, keep_blank_values=True):
            params.setdefault(k, []).append(v)
    for k, want in exp.equal.items():
        got = params.get(k)
        if got is None:
            out.append(("parameter_missing", f"{k} not transmitted (expected {want!r})"))
        elif got != [want]:
            out.append(("parameter_value", f"{k} = {got!r}, expected {want!r}"))
    for k, wants in getattr(exp, "multi", {}).items():
        if params.get(k) != wants:
            out.append(("parameter_value", f"sequence-valued {k}: transmitted {params.get(k)!r}, the caller passed {wants!r}"))
    for k, want in exp.decimals.items():
        got = params.get(k)
        if got is None:
            out.append(("parameter_missing", f"decimal {k} not transmitted (expected {want})"))
            continue
        if len(got) != 1:
            out.append(("parameter_value", f"{k} transmitted {len(got)} times"))
            continue
        g = got[0]
        if not PLAIN.match(g):
            out.append(("decimal_not_plain", f"{k} = {g!r} for Decimal({str(want)!r}): not plain fixed-point notation"))
        else:
            if D(g) != want:
                out.append(("decimal_value_changed", f"{k} = {g!r} but the caller passed {want}"))
    for k in exp.absent:
        if k in params:
            out.append(("unset_option_transmitted", f"{k} = {params[k]!r} although it was left unset"))
    return out


async def run_outbound(specs: List[Dict[str, Any]], res: ShardResult) -> None:
    async with Session() as s:
        for spec in specs:
            exp, recs, t0, t1, err = await s.call(spec)
            res.evaluations += 1
            if exp is None:
                res.errors.append(f"catalog error for {spec['name']}: {err!r}")
                continue
            res.count("outbound_calls")
            res.count("outbound_decimals_checked", len(exp.decimals))
            for kind, msg in check_outbound(spec, exp, recs, err):
                mech = "decimal_str_exponent" if kind == "decimal_not_plain" else ""
                res.violate(Violation("C17", kind, f"{spec['client']} {spec['name']} ({spec['args'].get('acct', '')}): {msg}",
                                      scenario={"dir": "out", "spec": spec}, mechanism=mech))
            classes = sorted({calls.dec_class(str(v)) if False else calls.dec_class(format(v, "f") if False else str(v))
                              for v in exp.decimals.values()})
            if any(c.startswith("exp") for c in classes):
                res.nontrivial.add(common.digest(["out", spec["client"], spec["name"], spec["args"].get("acct"), classes]))
            if recs:
                res.sample({"dir": "out", "call": f"{spec['client']}.{spec['name']}",
                            "passed": {k: str(v) for k, v in exp.decimals.items()},
                            "received": f"{recs[-1].method} {recs[-1].raw_path[:120]} {recs[-1].body.decode('utf-8', 'replace')[:160]}"})


# ---------------------------------------------------------------------------------------------
# inbound
# ---------------------------------------------------------------------------------------------

def gen_ts_ms(r) -> int:
    lo = int(datetime.datetime(2010, 1, 1, tzinfo=UTC).timestamp() * 1000)
    hi = int(datetime.datetime(2100, 1, 1, tzinfo=UTC).timestamp() * 1000)
    return r.choice([r.randint(lo, hi), r.randint(lo, hi), hi - 1, lo, 1700000000123, r.randint(hi - 10 ** 9, hi)])


def gen_ts_us(r) -> int:
    lo = int(datetime.datetime(2010, 1, 1, tzinfo=UTC).timestamp()) * 10 ** 6
    hi = int(datetime.datetime(2100, 1, 1, tzinfo=UTC).timestamp()) * 10 ** 6
    return r.choice([r.randint(lo, hi), r.randint(lo, hi), hi - 1, lo + 1, 1700000000123457, r.randint(hi - 10 ** 12, hi)])


def ms_dt(ms: int) -> datetime.datetime:
    return EPOCH + datetime.timedelta(milliseconds=ms)


def us_dt(us: int) -> datetime.datetime:
    return EPOCH + datetime.timedelta(microseconds=us)


def gen_dec(r) -> str:
    return r.choice([calls.gen_decimal(r), "0.00000000", "0", "12345678901234567890.123456789012345678", "0.1",
                     "1.10", "100.00000001"])


def gen_inbound(r) -> Dict[str, Any]:
    kind = r.choice(["bn_order_info", "bn_open_orders", "bn_created", "bn_canceled", "bn_balances", "bn_ws_trade",
                     "bn_ws_kline", "bn_ws_user", "bn_ws_book", "bs_open_orders", "bs_order_info", "bs_balances",
                     "bs_ws_trade", "bs_ws_order", "bs_ws_book", "bs_created", "bs_canceled"])
    c: Dict[str, Any] = {"kind": kind, "status": r.choice(list(BN_STATUS)), "bs_status": r.choice(list(BS_STATUS)),
                         "ms": gen_ts_ms(r), "ms2": gen_ts_ms(r), "us": gen_ts_us(r),
                         "d": [gen_dec(r) for _ in range(12)], "side": r.choice(["BUY", "SELL"]),
                         "n": r.randint(0, 3), "id": r.randint(1, 10 ** 15), "acct": r.choice(["spot", "cross", "isolated"])}
    return c


async def run_inbound(cases: List[Dict[str, Any]], res: ShardResult) -> None:
    from basana.core import event
    from basana.core.pair import Pair
    from basana.core.enums import OrderOperation as Op
    from basana.external.binance import trades as bn_trades, klines as bn_klines, user_data as bn_ud, order_book as bn_ob
    from basana.external.bitstamp import trades as bs_trades, orders as bs_orders, order_book as bs_ob

    pair = Pair("BTC", "USDT")
    bpair = Pair("BTC", "USD")
    async with Session() as s:
        for c in cases:
            res.evaluations += 1
            res.count("inbound_payloads")
            bad: List[tuple] = []

            def eq(name, got, want):
                res.count("inbound_fields_checked")
                if got != want or type(got) is not type(want):
                    bad.append(("decoded_value_mismatch", f"{c['kind']}.{name}: decoded {got!r}, payload says {want!r}"))

            d = c["d"]
            k = c["kind"]
            try:
                if k in ("bn_order_info", "bn_open_orders", "bn_created", "bn_canceled"):
                    order = {"symbol": "BTCUSDT", "orderId": c["id"], "orderListId": -1, "clientOrderId": "cid-1",
                             "price": d[0], "origQty": d[1], "executedQty": d[2], "cummulativeQuoteQty": d[3],
                             "status": c["status"], "timeInForce": "GTC", "type": "LIMIT", "side": c["side"],
                             "stopPrice": d[4], "time": c["ms"], "updateTime": c["ms2"], "transactTime": c["ms"],
                             "isIsolated": c["acct"] == "isolated"}
                    trades = [{"symbol": "BTCUSDT", "id": i + 1, "orderId": c["id"], "price": d[5 + i], "qty": d[6 + i],
                               "quoteQty": d[7 + i], "commission": d[8 + i], "commissionAsset": "BNB" if i % 2 else "USDT",
                               "time": c["ms2"], "isBuyer": True, "isMaker": False, "isBestMatch": True}
                              for i in range(c["n"])]
                    acct = {"spot": s.bn_ex.spot_account, "cross": s.bn_ex.cross_margin_account,
                            "isolated": s.bn_ex.isolated_margin_account}[c["acct"]]

                    def reply(method, path):
                        if path.endswith("myTrades"):
                            return trades
                        if path.endswith("openOrders"):
                            return [order]
                        if method == "POST":
                            return dict(order, fills=[{"price": d[5], "qty": d[6], "commission": d[7],
                                                       "commissionAsset": "BNB", "tradeId": 9}])
                        return order
                    s.srv.reply = reply
                    lim = None if D(d[0]) == 0 else D(d[0])
                    stp = None if D(d[4]) == 0 else D(d[4])
                    if k == "bn_order_info":
                        oi = await acct.get_order_info(pair, order_id=str(c["id"]), include_trades=True)
                        eq("id", oi.id, str(c["id"]))
                        eq("is_open", oi.is_open, BN_STATUS[c["status"]])
                        eq("amount", oi.amount, D(d[1]))
                        eq("amount_filled", oi.amount_filled, D(d[2]))
                        eq("amount_remaining", oi.amount_remaining, D(d[1]) - D(d[2]))
                        eq("quote_amount_filled", oi.quote_amount_filled, D(d[3]))
                        eq("limit_price", oi.limit_price, lim)
                        eq("stop_price", oi.stop_price, stp)
                        eq("operation", oi.operation, Op.BUY if c["side"] == "BUY" else Op.SELL)
                        fees: Dict[str, D] = {}
                        for i, t in enumerate(trades):
                            if D(t["commission"]):
                                fees[t["commissionAsset"]] = fees.get(t["commissionAsset"], D(0)) + D(t["commission"])
                            eq(f"trades[{i}].price", oi.trades[i].price, D(t["price"]))
                            eq(f"trades[{i}].amount", oi.trades[i].amount, D(t["qty"]))
                            eq(f"trades[{i}].quote_amount", oi.trades[i].quote_amount, D(t["quoteQty"]))
                            eq(f"trades[{i}].commission", oi.trades[i].commission, D(t["commission"]))
                            eq(f"trades[{i}].datetime", oi.trades[i].datetime, ms_dt(c["ms2"]))
                        eq("fees", dict(oi.fees), fees)
                    elif k == "bn_open_orders":
                        oo = (await acct.get_open_orders(pair))[0]
                        eq("datetime", oo.datetime, ms_dt(c["ms"]))
                        eq("amount", oo.amount, D(d[1]))
                        eq("amount_filled", oo.amount_filled, D(d[2]))
                        eq("limit_price", oo.limit_price, lim)
                        eq("stop_price", oo.stop_price, stp)
                        eq("is_open", oo.is_open, BN_STATUS[c["status"]])
                        eq("operation", oo.operation, Op.BUY if c["side"] == "BUY" else Op.SELL)
                    elif k == "bn_created":
                        co = await acct.create_limit_order(Op.BUY, pair, D("1"), D("1"))
                        eq("datetime", co.datetime, ms_dt(c["ms"]))
                        eq("amount", co.amount, D(d[1]))
                        eq("amount_filled", co.amount_filled, D(d[2]))
                        eq("quote_amount_filled", co.quote_amount_filled, D(d[3]))
                        eq("limit_price", co.limit_price, lim)
                        eq("is_open", co.is_open, BN_STATUS[c["status"]])
                        eq("fills[0].price", co.fills[0].price, D(d[5]))
                        eq("fills[0].amount", co.fills[0].amount, D(d[6]))
                        eq("fills[0].commission", co.fills[0].commission, D(d[7]))
                    else:
                        ca = await acct.cancel_order(pair, order_id=str(c["id"]))
                        eq("amount", ca.amount, D(d[1]))
                        eq("amount_filled", ca.amount_filled, D(d[2]))
                        eq("is_open", ca.is_open, BN_STATUS[c["status"]])
                        eq("limit_price", ca.limit_price, lim)
                elif k == "bn_balances":
                    s.srv.reply = lambda m, p: {"balances": [{"asset": "btc", "free": d[0], "locked": d[1]}]}
                    b = (await s.bn_ex.spot_account.get_balances())["BTC"]
                    eq("available", b.available, D(d[0]))
                    eq("locked", b.locked, D(d[1]))
                    eq("total", b.total, D(d[0]) + D(d[1]))
                elif k == "bn_ws_trade":
                    src = bn_trades.WebSocketEventSource(pair, event.Producer())
                    await src.push_from_message({"stream": "btcusdt@trade", "data": {
                        "e": "trade", "E": c["ms"], "s": "BTCUSDT", "t": c["id"], "p": d[0], "q": d[1], "b": 88, "a": 50,
                        "T": c["ms2"], "m": True, "M": True}})
                    ev = src.pop()
                    eq("when", ev.when, ms_dt(c["ms"]))
                    eq("trade.datetime", ev.trade.datetime, ms_dt(c["ms2"]))
                    eq("trade.price", ev.trade.price, D(d[0]))
                    eq("trade.amount", ev.trade.amount, D(d[1]))
                    eq("trade.id", ev.trade.id, str(c["id"]))
                elif k == "bn_ws_kline":
                    src = bn_klines.WebSocketEventSource(pair, event.Producer())
                    o, h, low, cl = sorted([D(d[0]), D(d[1]), D(d[2]), D(d[3])])[1], max(D(x) for x in d[:4]), \
                        min(D(x) for x in d[:4]), sorted([D(d[0]), D(d[1]), D(d[2]), D(d[3])])[2]
                    strs = {D(x): x for x in d[:4]}
                    await src.push_from_message({"stream": "btcusdt@kline_1m", "data": {
                        "e": "kline", "E": c["ms"], "s": "BTCUSDT",
                        "k": {"t": c["ms2"], "T": c["ms2"] + 59999, "s": "BTCUSDT", "i": "1m", "o": strs[o], "c": strs[cl],
                              "h": strs[h], "l": strs[low], "v": d[4], "x": True}}})
                    ev = src.pop()
                    eq("when", ev.when, ms_dt(c["ms"]))
                    eq("bar.datetime", ev.bar.datetime, ms_dt(c["ms2"]))
                    eq("bar.open", ev.bar.open, o)
                    eq("bar.high", ev.bar.high, h)
                    eq("bar.low", ev.bar.low, low)
                    eq("bar.close", ev.bar.close, cl)
                    eq("bar.volume", ev.bar.volume, D(d[4]))
                elif k == "bn_ws_user":
                    src = bn_ud.WebSocketEventSource(event.Producer())
                    await src.push_from_message({"stream": "lk", "data": {
                        "e": "executionReport", "E": c["ms"], "s": "BTCUSDT", "c": "cid", "S": c["side"], "o": "LIMIT",
                        "f": "GTC", "q": d[0], "p": d[1], "P": d[2], "g": -1, "X": c["status"], "i": c["id"], "z": d[3],
                        "Z": d[4], "n": d[5], "N": "BNB", "Q": d[6]}})
                    ev = src.pop()
                    u = ev.order_update
                    eq("when", ev.when, ms_dt(c["ms"]))
                    eq("amount", u.amount, D(d[0]))
                    eq("limit_price", u.limit_price, None if D(d[1]) == 0 else D(d[1]))
                    eq("stop_price", u.stop_price, None if D(d[2]) == 0 else D(d[2]))
                    eq("amount_filled", u.amount_filled, D(d[3]))
                    eq("quote_amount_filled", u.quote_amount_filled, D(d[4]))
                    eq("fees", u.fees, {"BNB": D(d[5])})
                    eq("quote_amount", u.quote_amount, None if D(d[6]) == 0 else D(d[6]))
                    eq("is_open", u.is_open, BN_STATUS[c["status"]])
                    eq("operation", u.operation, Op.BUY if c["side"] == "BUY" else Op.SELL)
                elif k == "bn_ws_book":
                    src = bn_ob.WebSocketEventSource(pair, event.Producer())
                    await src.push_from_message({"stream": "x", "data": {"lastUpdateId": 1, "bids": [[d[0], d[1]]],
                                                                         "asks": [[d[2], d[3]], [d[4], d[5]]]}})
                    ob = src.pop().order_book
                    eq("bids[0].price", ob.bids[0].price, D(d[0]))
                    eq("bids[0].volume", ob.bids[0].volume, D(d[1]))
                    eq("asks[1].price", ob.asks[1].price, D(d[4]))
                    eq("asks[1].volume", ob.asks[1].volume, D(d[5]))
                elif k == "bs_open_orders":
                    dt_s = us_dt(c["us"] - c["us"] % 10 ** 6)
                    s.srv.reply = lambda m, p: [{"id": str(c["id"]), "datetime": dt_s.strftime("%Y-%m-%d %H:%M:%S"),
                                                 "type": "1" if c["side"] == "SELL" else "0", "price": d[0], "amount": d[1],
                                                 "amount_at_create": d[2], "currency_pair": "BTC/USD", "client_order_id": "x"}]
                    oo = (await s.bs_ex.get_open_orders(bpair))[0]
                    eq("datetime", oo.datetime, dt_s)
                    eq("limit_price", oo.limit_price, D(d[0]))
                    eq("amount", oo.amount, D(d[2]))
                    eq("operation", oo.operation, Op.SELL if c["side"] == "SELL" else Op.BUY)
                    eq("pair", oo.pair, bpair)
                elif k == "bs_order_info":
                    txs = [{"tid": i, "price": d[i], "fee": d[i + 1], "btc": d[i + 2], "usd": d[i + 3], "type": 2,
                            "datetime": "2024-01-01 00:00:00"} for i in range(c["n"])]
                    s.srv.reply = lambda m, p: {"id": c["id"], "status": c["bs_status"], "amount_remaining": d[9],
                                                "transactions": txs, "client_order_id": "x"}
                    oi = await s.bs_ex.get_order_info(bpair, order_id=c["id"])
                    eq("is_open", oi.is_open, BS_STATUS[c["bs_status"]])
                    eq("amount_remaining", oi.amount_remaining, D(d[9]))
                    eq("amount_filled", oi.amount_filled, sum((D(t["btc"]) for t in txs), D(0)))
                    eq("quote_amount_filled", oi.quote_amount_filled, sum((D(t["usd"]) for t in txs), D(0)))
                    fee = sum((D(t["fee"]) for t in txs), D(0))
                    eq("fees", oi.fees, {"USD": fee} if fee else {})
                elif k == "bs_balances":
                    s.srv.reply = lambda m, p: [{"currency": "btc", "total": d[0], "available": d[1], "reserved": d[2]}]
                    b = (await s.bs_ex.get_balances())["BTC"]
                    eq("total", b.total, D(d[0]))
                    eq("available", b.available, D(d[1]))
                    eq("reserved", b.reserved, D(d[2]))
                elif k in ("bs_created", "bs_canceled"):
                    dt_s = us_dt(c["us"])
                    if k == "bs_created":
                        s.srv.reply = lambda m, p: {"id": str(c["id"]), "datetime": dt_s.strftime("%Y-%m-%d %H:%M:%S.%f"),
                                                    "type": "0", "price": d[0], "amount": d[1]}
                        co = await s.bs_ex.create_limit_order(Op.BUY, bpair, D("1"), D("1"))
                        eq("datetime", co.datetime, dt_s)
                        eq("price", co.price, D(d[0]))
                        eq("amount", co.amount, D(d[1]))
                        eq("id", co.id, str(c["id"]))
                    else:
                        s.srv.reply = lambda m, p: {"id": c["id"], "amount": d[0], "price": d[1], "type": 1}
                        ca = await s.bs_ex.cancel_order(c["id"])
                        eq("amount", ca.amount, D(d[0]))
                        eq("limit_price", ca.limit_price, D(d[1]))
                        eq("operation", ca.operation, Op.SELL)
                elif k == "bs_ws_trade":
                    src = bs_trades.WebSocketEventSource(bpair, event.Producer())
                    await src.push_from_message({"event": "trade", "channel": "live_trades_btcusd", "data": {
                        "id": c["id"], "microtimestamp": str(c["us"]), "amount_str": d[0], "price_str": d[1], "type": 1,
                        "buy_order_id": 1, "sell_order_id": 2, "amount": 1.5, "price": 2.5}})
                    t = src.pop().trade
                    eq("datetime", t.datetime, us_dt(c["us"]))
                    eq("amount", t.amount, D(d[0]))
                    eq("price", t.price, D(d[1]))
                    eq("operation", t.operation, Op.SELL)
                elif k == "bs_ws_order":
                    src = bs_orders.WebSocketEventSource(bpair, event.Producer())
                    await src.push_from_message({"event": "order_created", "channel": "live_orders_btcusd", "data": {
                        "id": c["id"], "microtimestamp": str(c["us"]), "amount_str": d[0], "price_str": d[1],
                        "amount_at_create": d[2], "order_type": 0}})
                    o = src.pop().order
                    eq("datetime", o.datetime, us_dt(c["us"]))
                    eq("amount", o.amount, D(d[2]))
                    eq("amount_filled", o.amount_filled, D(d[2]) - D(d[0]))
                    eq("price", o.price, D(d[1]))
                    eq("operation", o.operation, Op.BUY)
                elif k == "bs_ws_book":
                    src = bs_ob.WebSocketEventSource(bpair, event.Producer())
                    await src.push_from_message({"event": "data", "channel": "order_book_btcusd", "data": {
                        "microtimestamp": str(c["us"]), "bids": [[d[0], d[1]]], "asks": [[d[2], d[3]]]}})
                    ob = src.pop().order_book
                    eq("datetime", ob.datetime, us_dt(c["us"]))
                    eq("bids[0].price", ob.bids[0].price, D(d[0]))
                    eq("asks[0].volume", ob.asks[0].volume, D(d[3]))
            except Exception as ex:
                import traceback
                tb = traceback.extract_tb(ex.__traceback__)
                where = tb[-1].filename if tb else ""
                if "/vf/" in where:
                    res.errors.append("harness failure in inbound case: " + traceback.format_exc()[-600:])
                else:
                    bad.append(("decoder_raised", f"{k}: {type(ex).__name__}: {ex}"))
            finally:
                s.srv.reply = lambda m, p: (calls.CURRENT["expect"].reply if calls.CURRENT["expect"] is not None else {})
            for kind, msg in bad[:3]:
                res.violate(Violation("C17", kind, msg, scenario={"dir": "in", "case": c}))
            hi_us = c["us"] % 1000 != 0
            far = c["ms"] > 4 * 10 ** 12 or c["us"] > 4 * 10 ** 15
            if hi_us or far or BN_STATUS.get(c["status"]):
                res.nontrivial.add(common.digest(["in", k, c["status"] if k.startswith("bn") else c["bs_status"], hi_us, far,
                                                  sorted({calls.dec_class(x) for x in d[:6]})]))
            res.sample({"dir": "in", "kind": k, "status": c["status"], "ms": c["ms"], "us": c["us"], "decimals": d[:4]})


def run_shard(ctx: Context, res: ShardResult) -> None:
    sen = sentinel.Sentinel(WATCH, lines=False)
    sen.start()
    try:
        ids = list(ctx.case_ids())
        specs = [calls.gen_spec(ctx.rng("c17out", i)) for i in ids[: len(ids) // 2]]
        specs = [sp for sp in specs if sp["name"] not in ("account_info", "listen_key", "keep_alive", "balances",
                                                          "balance", "ws_token")]
        cases = [gen_inbound(ctx.rng("c17in", i)) for i in ids[len(ids) // 2:]]
        asyncio.run(run_outbound(specs, res))
        asyncio.run(run_inbound(cases, res))
    finally:
        sen.stop()
    for name, n in sen.calls.items():
        res.sentinel("call:" + name, n)


def replay(prop: str, scenario: Dict[str, Any], res: ShardResult) -> None:
    if scenario["dir"] == "out":
        asyncio.run(run_outbound([scenario["spec"]], res))
    else:
        asyncio.run(run_inbound([scenario["case"]], res))


def finalize(prop: str, tier: str, merged: ShardResult) -> Dict[str, Any]:
    inc = []
    c = merged.counters
    for k, n in (("outbound_calls", 300), ("outbound_decimals_checked", 300), ("inbound_payloads", 300),
                 ("inbound_fields_checked", 1500)):
        if c.get(k, 0) < n:
            inc.append(f"'{k}' observed only {c.get(k, 0)} times (< {n})")
    return {"inconclusive": inc}
