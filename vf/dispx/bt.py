"""Backtesting-dispatcher scenarios with trace recording (shared by C12 and C13, DESIGN.md section 4).

All handlers, sniffers and jobs are harness objects that append to a trace
``(seq, phase, kind, id, eid, item_when_s, now_s)`` where phase is start | resume | end. A scenario is
a JSON document; run-time decisions (push a derived event, schedule a job) are scripted per
invocation ordinal, so a replay needs no random state.
"""
from __future__ import annotations

import asyncio
import collections
import datetime
from typing import Any, Dict, List, Optional, Tuple

UTC = datetime.timezone.utc
T0 = datetime.datetime(2000, 1, 1, tzinfo=UTC)


class MuxBudget:
    """Logical-step budget on EventMultiplexer.pop(): a dispatcher that keeps popping without ever awaiting (pure CPU,
    invisible to the event loop, so no timeout can fire) exhausts it and is interrupted from the monitoring callback."""
    TOOL = 3
    LIMIT = 1_500_000
    count = 0
    installed = False

    class Exhausted(Exception):
        pass

    @classmethod
    def install(cls):
        import sys
        from basana.core import dispatcher
        if cls.installed:
            return
        mon = sys.monitoring
        try:
            mon.use_tool_id(cls.TOOL, "vf-mux-budget")
        except ValueError:
            return

        def on_line(c, line):
            cls.count += 1
            if cls.count > cls.LIMIT:
                cls.count = 0
                raise cls.Exhausted("EventMultiplexer.pop() executed more than 1.5 million lines in one scenario: the "
                                    "dispatcher spins without awaiting")
        mon.register_callback(cls.TOOL, mon.events.LINE, on_line)
        mon.set_local_events(cls.TOOL, dispatcher.EventMultiplexer.pop.__code__, mon.events.LINE)
        cls.installed = True


class CallableObject:
    """An object with an async ``__call__``: a legitimate handler / job that has neither __name__ nor __qualname__."""

    def __init__(self, fn):
        self._fn = fn

    async def __call__(self, *a):
        return await self._fn(*a)


def shaped(fn, k: int):
    """Handlers and jobs come as plain coroutine functions, ``functools.partial`` objects and callable instances."""
    import functools
    kind = ("fn", "partial", "fn", "obj", "fn")[k % 5]
    if kind == "partial":
        return functools.partial(fn)
    if kind == "obj":
        return CallableObject(fn)
    return fn


class Later:
    """An awaitable that is neither a coroutine nor a future."""

    def __init__(self, coro):
        self._coro = coro

    def __await__(self):
        return self._coro.__await__()


def failure(msg: str, k: int) -> BaseException:
    """Handlers and jobs fail in the ways real ones do: with and without a message (a bare ``raise RuntimeError``, a
    failed ``assert``, the ``TimeoutError`` of ``asyncio.wait_for`` carry no arguments)."""
    import asyncio as _a
    shapes = [lambda: RuntimeError(msg), lambda: RuntimeError(), lambda: AssertionError(), lambda: _a.TimeoutError(),
              lambda: KeyError(msg), lambda: Exception(), lambda: ValueError(msg, k), lambda: RuntimeError(msg)]
    return shapes[k % len(shapes)]()


def T(s: float, tz_minutes: int = 0) -> datetime.datetime:
    t = T0 + datetime.timedelta(seconds=s)
    if tz_minutes:
        # the same instant expressed in another UTC offset (aware datetimes of any zone are legal inputs)
        t = t.astimezone(datetime.timezone(datetime.timedelta(minutes=tz_minutes)))
    return t


def S(dt: datetime.datetime) -> float:
    return (dt - T0).total_seconds()


class Trace:
    def __init__(self):
        self.rows: List[tuple] = []
        self.seq = 0

    def add(self, phase: str, kind: str, ident: Any, eid: Any, when_s: Optional[float], now_s: Optional[float]):
        self.seq += 1
        self.rows.append((self.seq, phase, kind, ident, eid, when_s, now_s))
        return self.seq


class BtRun:
    """Builds and runs one scenario on the real BacktestingDispatcher."""

    def __init__(self, sc: Dict[str, Any]):
        self.sc = sc
        self.trace = Trace()
        self.events: Dict[int, Tuple[int, float]] = {}      # eid -> (source index, when_s)
        self.src_events: Dict[int, List[int]] = {}           # source index -> event ids it must deliver
        self.pushed_by: Dict[int, int] = {}                 # eid -> seq at which it was pushed (derived events)
        self.pushed_from: Dict[int, tuple] = {}             # eid -> (handler id, event id) of the invocation that pushed it
        self.jobs: Dict[int, Dict[str, Any]] = {}           # jid -> {when, sched_seq, sched_now, by}
        self.subs: Dict[int, List[int]] = collections.defaultdict(list)   # source index -> handler ids in order
        self.outcome: Any = None
        self.now_errors = 0
        self.runaway = False

    def _now(self) -> Optional[float]:
        try:
            return S(self.d.now())
        except Exception:
            self.now_errors += 1
            return None

    def build(self):
        from basana.core import dispatcher, event

        sc = self.sc
        self.d = dispatcher.backtesting_dispatcher(max_concurrent=sc["max_concurrent"])
        if sc.get("stop_on_handler_exceptions"):
            self.d.stop_on_handler_exceptions = True
        run = self

        class Ev(event.Event):
            def __init__(self, when, eid):
                super().__init__(when)
                self.eid = eid

        class Batch(Ev):
            """An event type of the application's own that has a length (a batch of items), here an empty one."""

            def __len__(self):
                return 0

        class CountingSource(event.FifoQueueEventSource):
            """A source of the application's own that reports how many events it still holds."""

            def __len__(self):
                return len(self._queue)

        self.Ev = Ev
        eid = 0
        self.sources = []
        lists: List[list] = []
        nsrc = len(sc["sources"])
        for si, src in enumerate(sc["sources"]):
            evs = []
            for t in src["events"]:
                eid += 1
                tzs = sc.get("tz_minutes", [0])
                evs.append((Batch if eid % 7 == 3 else Ev)(T(t, tzs[eid % len(tzs)]), eid))
                self.events[eid] = (si, t)
            self.src_events[si] = [e.eid for e in evs]
            lists.append(evs)
            if src.get("alias_of") is not None and src["alias_of"] < si:
                # a second source built from the *same list object* as an earlier one: each must deliver all of it
                evs = lists[src["alias_of"]]
                self.src_events[si] = list(self.src_events[src["alias_of"]])
            if src.get("producer") and si % 2 == 1 and src.get("alias_of") is None:
                # a producer that queues its events when its main() starts (nothing is preloaded)
                class Feeder(event.Producer):
                    def __init__(self, pending):
                        self.pending = pending
                        self.source = None

                    async def main(self):
                        for e_ in self.pending:
                            self.source.push(e_)
                feeder = Feeder(list(evs))
                fsrc = event.FifoQueueEventSource(producer=feeder)
                feeder.source = fsrc
                self.sources.append(fsrc)
            elif src.get("producer"):
                self.sources.append(event.FifoQueueEventSource(producer=event.Producer(), events=evs))
            elif si % 3 == 2:
                self.sources.append(CountingSource(events=evs))
            else:
                self.sources.append(event.FifoQueueEventSource(events=evs))
        self.next_eid = eid
        self.derived = [event.FifoQueueEventSource() for _ in range(sc.get("derived", 0))]
        self.last_push: Dict[int, Optional[float]] = {i: None for i in range(len(self.derived))}
        all_sources = self.sources + self.derived
        # subscriptions in the scripted order
        self.handlers: Dict[int, Any] = {}
        class Holder:
            """Handlers are often bound methods: every attribute access yields a new, equal but not identical, object."""
            def __init__(self, fn):
                self._fn = fn

            async def on_event(self, e):
                return await self._fn(e)

        for sub in sc["subscriptions"]:
            kind = sub["kind"]
            h = self.handlers.get(sub["id"])
            if h is None:
                h = self._mk_handler(sub)
                if sub.get("bound"):
                    h = Holder(h)
                elif not sub.get("plain"):
                    h = shaped(h, sub["id"])
                self.handlers[sub["id"]] = h
            if isinstance(h, Holder):
                h = h.on_event
            if kind == "h":
                self.d.subscribe(all_sources[sub["source"]], h)
                if sub["id"] not in self.subs[sub["source"]]:
                    self.subs[sub["source"]].append(sub["id"])
            elif kind == "pre":
                self.d.subscribe_all(h, front_run=True)
            else:
                self.d.subscribe_all(h)
        self.pre = []
        self.post = []
        for sub in sc["subscriptions"]:
            if sub["kind"] == "pre" and sub["id"] not in self.pre:
                self.pre.append(sub["id"])
            if sub["kind"] == "post" and sub["id"] not in self.post:
                self.post.append(sub["id"])
        for j in sc.get("jobs", []):
            self._schedule(j, by=None)

    def _schedule(self, j: Dict[str, Any], by: Optional[str], base_now: Optional[float] = None):
        jid = len(self.jobs) + 1
        when = j["t"] if "t" in j else round((base_now or 0.0) + j["dt"], 6)
        self.jobs[jid] = {"when": when, "sched_seq": self.trace.seq, "sched_now": base_now, "by": by,
                          "spec": j}
        tzs = self.sc.get("tz_minutes", [0])
        self.d.schedule(T(when, tzs[jid % len(tzs)]), self._mk_job(jid, j, when))
        return jid

    def _mk_job(self, jid: int, spec: Dict[str, Any], when: float):
        run = self

        async def job():
            tr = run.trace
            tr.add("start", "job", jid, None, when, run._now())
            if len(tr.rows) > 20000 and not run.runaway:
                # a dispatcher that keeps re-running work would never end: stop it and let the checker report it
                run.runaway = True
                run.d.stop()
            for _ in range(spec.get("steps", 0)):
                await asyncio.sleep(0)
                tr.add("resume", "job", jid, None, when, run._now())
            for child in spec.get("schedule", []):
                run._schedule(child, by=f"job{jid}", base_now=run._now())
            tr.add("end", "job", jid, None, when, run._now())
            if spec.get("fail"):
                if jid % 4 == 3:
                    # the job ends with a CancelledError of its own making (it cancelled a helper task and awaited it):
                    # nobody cancelled the run
                    helper = asyncio.ensure_future(asyncio.sleep(3600))
                    helper.cancel()
                    await helper
                raise failure(f"job {jid} fails", jid)
        if spec.get("plain"):
            def plain_job():
                if spec.get("sync_fail"):
                    run.trace.add("start", "job", jid, None, when, run._now())
                    run.trace.add("end", "job", jid, None, when, run._now())
                    raise failure(f"job {jid} fails while being called", jid + 1)
                # whatever awaitable a plain callable returns is awaited: a coroutine, a future (gather, a task) or any
                # object with __await__
                shape = jid % 4
                if shape == 1:
                    return asyncio.gather(job())
                if shape == 2:
                    return asyncio.ensure_future(job())
                if shape == 3:
                    return Later(job())
                return job()
            return plain_job
        return shaped(job, jid + 2)

    def _mk_handler(self, sub: Dict[str, Any]):
        run = self
        hid = sub["id"]
        kind = sub["kind"]
        count = [0]

        async def handler(e):
            tr = run.trace
            n = count[0]
            count[0] += 1
            eid = getattr(e, "eid", None)
            tr.add("start", kind, hid, eid, S(e.when), run._now())
            for _ in range(sub.get("steps", 0)):
                await asyncio.sleep(sub.get("sleep", 0))
                tr.add("resume", kind, hid, eid, S(e.when), run._now())
            for push in sub.get("push", []):
                if push["on"] == n:
                    now = run._now()
                    w = round((now if now is not None else S(e.when)) + push["delay"], 6)
                    lp = run.last_push[push["to"]]
                    if lp is None or w >= lp:
                        run.last_push[push["to"]] = w
                        run.next_eid += 1
                        ne = run.Ev(T(w), run.next_eid)
                        run.events[ne.eid] = (len(run.sources) + push["to"], w)
                        run.src_events.setdefault(len(run.sources) + push["to"], []).append(ne.eid)
                        run.pushed_by[ne.eid] = tr.seq
                        run.pushed_from[ne.eid] = (hid, eid)
                        run.derived[push["to"]].push(ne)
            for sj in sub.get("schedule", []):
                if sj["on"] == n:
                    run._schedule(sj["job"], by=f"h{hid}", base_now=run._now())
            tr.add("end", kind, hid, eid, S(e.when), run._now())
            if n in sub.get("fail_on", []):
                raise failure(f"handler {hid} fails", hid + n)
        if sub.get("plain"):
            # a plain callable returning an awaitable; on the scripted invocations it raises *before* returning it
            sync_count = [0]

            def plain_handler(e):
                k = sync_count[0]
                sync_count[0] += 1
                if k in sub.get("sync_fail_on", []):
                    count[0] += 1
                    eid = getattr(e, "eid", None)
                    run.trace.add("start", kind, hid, eid, S(e.when), run._now())
                    run.trace.add("end", kind, hid, eid, S(e.when), run._now())
                    raise failure(f"handler {hid} fails while being called", hid + k)
                # any awaitable a plain callable returns is awaited
                # (futures that start running on their own are left out: "started in subscription order" is judged by
                # when the handler's body starts)
                if hid % 2 == 1:
                    return Later(handler(e))
                return handler(e)
            return plain_handler
        return handler

    def run(self):
        import logging
        if any(sub.get("sleep") for sub in self.sc["subscriptions"]):
            return self._run_virtual()
        loop = asyncio.new_event_loop()
        asyncio.set_event_loop(loop)
        f0 = logging.getLogRecordFactory()
        MuxBudget.install()
        MuxBudget.count = 0
        try:
            self.build()
            try:
                loop.run_until_complete(asyncio.wait_for(self.d.run(stop_signals=[]), timeout=60))
                self.outcome = "returned"
            except (Exception, asyncio.CancelledError) as ex:
                # nobody cancels these runs from outside: a CancelledError coming out of run() is an outcome to judge
                self.outcome = f"raised {type(ex).__name__}: {ex}"
        finally:
            logging.setLogRecordFactory(f0)   # keep scenarios independent (C14 checks the factory itself)
            try:
                pending = [t for t in asyncio.all_tasks(loop) if not t.done()]
                for t in pending:
                    t.cancel()
                if pending:
                    loop.run_until_complete(asyncio.gather(*pending, return_exceptions=True))
            finally:
                loop.close()
                asyncio.set_event_loop(None)
        return self

    def _run_virtual(self):
        """Same run under the virtual-time loop: handlers may stay suspended for (virtual) seconds."""
        import logging
        from vf import vclock
        f0 = logging.getLogRecordFactory()
        try:
            with vclock.virtual_time(patch_time_modules=False) as loop:
                self.build()
                try:
                    loop.run_until_complete(asyncio.wait_for(self.d.run(stop_signals=[]), timeout=10 ** 7))
                    self.outcome = "returned"
                except (Exception, asyncio.CancelledError) as ex:
                    self.outcome = f"raised {type(ex).__name__}: {ex}"
        finally:
            logging.setLogRecordFactory(f0)
        return self


# ---------------------------------------------------------------------------------------------
# Offline checkers over the trace
# ---------------------------------------------------------------------------------------------

def index_trace(run: BtRun):
    starts = collections.Counter()
    first_start: Dict[int, int] = {}
    last_end: Dict[int, int] = {}
    by_event: Dict[int, List[tuple]] = collections.defaultdict(list)
    job_rows: Dict[int, List[tuple]] = collections.defaultdict(list)
    for row in run.trace.rows:
        seq, phase, kind, ident, eid, when_s, now_s = row
        if kind == "job":
            job_rows[ident].append(row)
            continue
        by_event[eid].append(row)
        if phase == "start":
            starts[(kind, ident, eid)] += 1
            first_start.setdefault(eid, seq)
        if phase == "end":
            last_end[eid] = seq
    return starts, first_start, last_end, by_event, job_rows


def check_c12(run: BtRun) -> List[Tuple[str, str]]:
    """Returns (kind, message) for every violated clause of C12."""
    out: List[Tuple[str, str]] = []
    if run.outcome != "returned":
        out.append(("run_did_not_return", f"dispatcher.run() {run.outcome}"))
    starts, first_start, last_end, by_event, _ = index_trace(run)
    # (1) exactly once per (event, subscribed handler) and per (event, sniffer)
    sniff_expected: Dict[int, int] = collections.Counter()
    for si, eids in run.src_events.items():
        if not run.subs.get(si):
            continue   # a source nobody subscribed to is unknown to the dispatcher
        for eid in eids:
            sniff_expected[eid] += 1
            when = run.events[eid][1]
            for hid in run.subs.get(si, []):
                n = starts.get(("h", hid, eid), 0)
                if n != 1:
                    out.append(("not_exactly_once", f"event {eid} (source {si}, t={when}) started {n} times in "
                                                    f"h handler {hid}"))
    for eid, want in sniff_expected.items():
        for kind, ids in (("pre", run.pre), ("post", run.post)):
            for hid in ids:
                n = starts.get((kind, hid, eid), 0)
                if n != want:
                    out.append(("not_exactly_once", f"event {eid} (t={run.events[eid][1]}) started {n} times in {kind} "
                                                    f"handler {hid}, expected {want}"))
    for (kind, hid, eid), n in starts.items():
        if eid not in run.events:
            out.append(("unknown_event_delivered", f"handler {hid} received unknown event {eid}"))
        elif kind == "h" and not any(hid in run.subs.get(si2, []) for si2, lst in run.src_events.items() if eid in lst):
            out.append(("delivered_to_unsubscribed_handler", f"event {eid} of source {run.events[eid][0]} reached handler {hid}"))
    # (2) global time order
    evs = sorted(first_start, key=lambda e: first_start[e])
    max_end_by_when: List[Tuple[float, int, int]] = []
    for e in evs:
        if e not in run.events:
            continue
    # for a.when < b.when: last_end[a] < first_start[b]
    items = [(run.events[e][1], first_start[e], last_end.get(e, 10 ** 12), e) for e in evs if e in run.events]
    items.sort()
    # sweep: keep max last_end among strictly earlier 'when'
    i = 0
    max_end = -1
    max_end_e = None
    n = len(items)
    j = 0
    while i < n:
        k = i
        while k < n and items[k][0] == items[i][0]:
            k += 1
        for idx in range(i, k):
            if max_end_e is not None and items[idx][1] < max_end:
                out.append(("global_time_order", f"event {items[idx][3]} (t={items[idx][0]}) started at seq {items[idx][1]} "
                                                 f"before event {max_end_e} of an earlier time finished (seq {max_end})"))
                break
        for idx in range(i, k):
            if items[idx][2] > max_end:
                max_end, max_end_e = items[idx][2], items[idx][3]
        i = k
    # (3) stage order per event
    for eid, rows in by_event.items():
        if eid not in run.events:
            continue
        if sniff_expected.get(eid, 1) > 1:
            continue   # the same event object travels through two sources: stages of the two deliveries interleave
        pre_end = max([r[0] for r in rows if r[2] == "pre" and r[1] == "end"], default=0)
        h_starts = [r for r in rows if r[2] == "h" and r[1] == "start"]
        h_end = max([r[0] for r in rows if r[2] == "h" and r[1] == "end"], default=0)
        post_start = min([r[0] for r in rows if r[2] == "post" and r[1] == "start"], default=10 ** 12)
        if h_starts and pre_end > min(r[0] for r in h_starts):
            out.append(("front_runner_not_first", f"event {eid}: a source handler started before a front-running "
                                                  f"sniffer finished"))
        if post_start < max(h_end, pre_end):
            out.append(("trailing_sniffer_early", f"event {eid}: a trailing sniffer started before the source "
                                                  f"handlers finished"))
        si = run.events[eid][0]
        order = [r[3] for r in h_starts]
        if sniff_expected.get(eid, 1) > 1:
            continue   # the same event object travels through two sources: stages of the two deliveries interleave
        if order != run.subs.get(si, []) and sorted(order) == sorted(run.subs.get(si, [])):
            out.append(("subscription_order", f"event {eid}: handlers started as {order}, subscribed as {run.subs.get(si)}"))
    # (4) clock
    prev = None
    for (seq, phase, kind, ident, eid, when_s, now_s) in run.trace.rows:
        if kind == "job":
            continue
        if now_s is None or abs(now_s - when_s) > 1e-9:
            out.append(("clock_ne_event_time", f"{kind} handler {ident} {phase} for event {eid} (t={when_s}) saw clock {now_s}"))
            break
    for (seq, phase, kind, ident, eid, when_s, now_s) in run.trace.rows:
        if now_s is None:
            continue
        if prev is not None and now_s < prev - 1e-9:
            out.append(("clock_moved_backwards", f"clock {prev} then {now_s} at seq {seq}"))
            break
        prev = now_s
    return out


def check_c13(run: BtRun) -> List[Tuple[str, str]]:
    out: List[Tuple[str, str]] = []
    if run.runaway:
        out.append(("runaway_dispatch", f"more than 20000 trace rows for {len(run.jobs)} jobs: the dispatcher keeps re-running work"))
    if run.outcome != "returned":
        out.append(("run_did_not_return", f"dispatcher.run() {run.outcome}"))
    starts, first_start, last_end, by_event, job_rows = index_trace(run)
    last_event_end = max(last_end.values(), default=0)
    jstart: Dict[int, int] = {}
    jend: Dict[int, int] = {}
    drain_jobs = set()
    for jid, info in run.jobs.items():
        rows = job_rows.get(jid, [])
        n = sum(1 for r in rows if r[1] == "start")
        in_scope = info["sched_seq"] <= last_event_end or info["by"] is None
        # jobs scheduled by jobs of the final drain are only required not to run twice
        if info["by"] and info["by"].startswith("job"):
            parent = int(info["by"][3:])
            if parent in drain_jobs or info["sched_seq"] > last_event_end:
                in_scope = False
        if info["sched_seq"] > last_event_end:
            drain_jobs.add(jid)
        if n > 1:
            out.append(("job_ran_twice", f"job {jid} (t={info['when']}) started {n} times"))
        if in_scope and n == 0:
            out.append(("job_never_ran", f"job {jid} scheduled for t={info['when']} (insertion #{jid}, by {info['by']}) "
                                         f"never ran; jobs: {[(k, v['when']) for k, v in run.jobs.items()]}"))
        if n >= 1:
            s = [r for r in rows if r[1] == "start"][0]
            jstart[jid] = s[0]
            e = [r for r in rows if r[1] == "end"]
            jend[jid] = e[0][0] if e else 10 ** 12
            for r in rows:
                if r[6] is None or r[6] < info["when"] - 1e-9:
                    out.append(("job_before_its_time", f"job {jid} scheduled for {info['when']} saw clock {r[6]} at {r[1]}"))
                    break
    # pairwise order among jobs pending at the same moment
    ids = sorted(jstart)
    for a in ids:
        for b in ids:
            if run.jobs[a]["when"] < run.jobs[b]["when"] and jstart[a] > jstart[b]:
                # both pending at the same moment: each was scheduled before the other started
                if run.jobs[a]["sched_seq"] < jstart[b] and run.jobs[b]["sched_seq"] < jstart[a]:
                    out.append(("jobs_out_of_order", f"job {b} (t={run.jobs[b]['when']}) started before job {a} "
                                                     f"(t={run.jobs[a]['when']}) although both were pending"))
    # order with respect to events
    for jid in ids:
        info = run.jobs[jid]
        floor = info["when"] if info["sched_now"] is None else max(info["when"], info["sched_now"])
        for eid, fs in first_start.items():
            if eid not in run.events:
                continue
            ew = run.events[eid][1]
            if ew < info["when"] and last_end.get(eid, 10 ** 12) > jstart[jid]:
                out.append(("job_before_earlier_event_finished",
                            f"job {jid} (t={info['when']}) started at seq {jstart[jid]} before event {eid} (t={ew}) finished"))
            if ew > floor and fs < jstart[jid]:
                out.append(("job_after_later_event",
                            f"job {jid} (t={info['when']}, scheduled at clock {info['sched_now']}) started after event "
                            f"{eid} (t={ew}) had started"))
    # a job scheduled into the past by a handler, while a derived event of the current clock value was pushed in the same
    # pass (or a later one) and therefore not popped yet, runs before that event: the pass ends, the job is due, the
    # next pass starts with the due jobs
    for eid, (phid, peid) in getattr(run, "pushed_from", {}).items():
        if eid not in first_start or eid not in run.events:
            continue
        ew = run.events[eid][1]
        pend = next((r[0] for r in run.trace.rows if r[0] > run.pushed_by[eid] and r[1] == "end" and r[2] != "job"
                     and r[3] == phid and r[4] == peid), None)
        if pend is None:
            continue
        for jid in ids:
            info = run.jobs[jid]
            if jid in jstart and info["by"] and info["by"].startswith("h") and info["sched_now"] is not None \
                    and abs(info["sched_now"] - ew) < 1e-9 and info["when"] < ew - 1e-9 and info["sched_seq"] <= pend \
                    and first_start[eid] < jstart[jid]:
                out.append(("job_after_later_event",
                            f"job {jid} (t={info['when']}, scheduled at clock {info['sched_now']} by {info['by']}) started after "
                            f"derived event {eid} (t={ew}), which was pushed in the same pass and not popped yet when the "
                            f"job was scheduled"))
    # clock never moves backwards (jobs included)
    prev = None
    for (seq, phase, kind, ident, eid, when_s, now_s) in run.trace.rows:
        if now_s is None:
            continue
        if prev is not None and now_s < prev - 1e-9:
            out.append(("clock_moved_backwards", f"clock {prev} then {now_s} at seq {seq}"))
            break
        prev = now_s
    # a job is over before any event with a later time is handled (it does not run alongside it)
    job_end = {r[3]: r[0] for r in run.trace.rows if r[2] == "job" and r[1] == "end"}
    job_when = {r[3]: r[5] for r in run.trace.rows if r[2] == "job" and r[1] == "start"}
    job_start = {r[3]: r[0] for r in run.trace.rows if r[2] == "job" and r[1] == "start"}
    ev_first = {}
    for r in run.trace.rows:
        if r[2] != "job" and r[1] == "start" and r[4] is not None and r[4] not in ev_first:
            ev_first[r[4]] = (r[0], r[5])
    for jid, end_seq in job_end.items():
        jw = job_when.get(jid)
        hit = next(((eid, st, ew) for eid, (st, ew) in ev_first.items() if jw is not None and ew > jw + 1e-9 and job_start.get(jid, 0) < st < end_seq), None)
        if hit is not None:
            out.append(("job_still_running_when_later_event_started",
                        f"job {jid} (t={jw}) was still running (ended at seq {end_seq}) when event {hit[0]} (t={hit[2]}) "
                        f"started at seq {hit[1]}"))
            break
    # events unaffected by (failing) jobs: every subscribed pair exactly once
    for eid, (si, when) in run.events.items():
        for hid in run.subs.get(si, []):
            if starts.get(("h", hid, eid), 0) != 1:
                out.append(("event_lost_or_duplicated", f"event {eid} (t={when}) started {starts.get(('h', hid, eid), 0)} times in handler {hid}"))
    return out


def interleaving_signature(run: BtRun) -> List[tuple]:
    """Trace with ids abstracted: what ran in which order and with how many suspensions."""
    first_ids: Dict[Any, int] = {}
    sig = []
    for (seq, phase, kind, ident, eid, when_s, now_s) in run.trace.rows:
        key = (kind, ident)
        k = first_ids.setdefault(key, len(first_ids))
        sig.append((phase[0], kind, k))
    return sig
