"""C14 - dispatcher lifecycle, fault isolation, bounded concurrency, logging (DESIGN.md section 4, C14).

Fault enumeration: dispatcher x exit path x failing producer phase x instant of the external action,
crossed with random schedules (producers, handler durations, jobs, idle handlers, pool sizes).
Everything runs under the virtual-time loop, so promptness is decided in virtual seconds.
"""
from __future__ import annotations

import asyncio
import collections
import itertools
import logging
import time
from typing import Any, Dict, List, Optional

from vf import common, sentinel, vclock
from vf.dispx import bt
from vf.common import Context, Plan, ShardResult, Violation

LEVELS = {"C14": "fault_enumeration"}
RULES = {"C14": (
    "fault point = (dispatcher in {backtesting, realtime}) x (exit path in {sources exhausted, stop from handler, stop "
    "from job, stop from outside, handler error with stop-on-error, external cancel}) x (failing producer phase in "
    "{none, initialize, main, finalize, main+finalize}) x (instant of the outside action in {before initialisation "
    "finishes, during main, while the pool is full}); the product is enumerated completely in both tiers and every "
    "point is crossed with random schedules (1-4 producers, pool size 1/2/3/50, due events + due jobs + idle handlers "
    "competing for the pool, handler durations / suspension patterns). Non-trivial: the scenario contains a fault and "
    ">= 1 handler in flight when the run ends, or a saturated pool. Distinct = digest of (fault point, pool size, "
    "numbers of producers/events/jobs/idle handlers, observed outcome and producer phase sequence).")}
ASSUMPTIONS = {"C14": [
    "a second, independent fault arriving while the dispatcher is already finalising (double fault) is not generated",
    "virtual time: promptness is 'run() ends within sum(finalize durations) + 1 virtual second after the stop / "
    "fault', independent of machine load",
    "handlers and producers are cooperative coroutines that propagate CancelledError",
]}
WATCH = ["basana.core.dispatcher", "basana.core.helpers", "basana.core.logs"]

EXITS_BT = ["exhausted", "stop_handler", "stop_job", "stop_outside", "handler_error", "cancel"]
EXITS_RT = ["stop_handler", "stop_job", "stop_outside", "handler_error", "cancel"]
PHASES = [None, "initialize", "main", "finalize", "main+finalize"]
INSTANTS = ["before_init_done", "during_main", "pool_full"]


def fault_space() -> List[Dict[str, Any]]:
    out = []
    for disp, exits in (("backtesting", EXITS_BT), ("realtime", EXITS_RT)):
        for ex in exits:
            instants = INSTANTS if ex in ("stop_outside", "cancel") else (["during_main", "pool_full"]
                                                                          if ex in ("stop_handler", "stop_job", "handler_error")
                                                                          else ["during_main"])
            for inst in instants:
                for ph in PHASES:
                    out.append({"dispatcher": disp, "exit": ex, "instant": inst, "producer_fail": ph})
    return out


def plan(prop: str, tier: str) -> Plan:
    n = len(fault_space())
    if tier == "quick":
        return Plan(shards=4, cases_per_shard=(n * 12 + 3) // 4, timeout_s=600)
    return Plan(shards=16, cases_per_shard=(n * 3000 + 15) // 16, timeout_s=3000)


def gen(r, fp: Dict[str, Any]) -> Dict[str, Any]:
    rt = fp["dispatcher"] == "realtime"
    mc = r.choice([1, 1, 2, 3, 50])
    nprod = r.randint(1, 4)
    inst = fp["instant"]
    long_handlers = (inst == "pool_full" or r.random() < 0.3) and fp["exit"] != "exhausted"
    if not rt and fp["exit"] == "stop_job":
        long_handlers = False     # a backtest runs jobs only between events: the stopping job must be reachable
    producers = []
    failing = r.randrange(nprod) if fp["producer_fail"] else None
    for i in range(nprod):
        nev = r.randint(1, 5)
        p = {"init_dur": r.choice([0.0, 0.1, 0.3]), "fin_dur": r.choice([0.0, 0.05, 0.1]),
             "main_dur": r.choice([0.0, 0.5, 2.0, 1000.0]),
             # events: (push at virtual second, event time offset in s relative to the push instant)
             "events": [[round(r.choice([0.0, 0.0, 0.2, 0.5, 1.0]), 2), r.choice([0.0, -0.5, -2.0])] for _ in range(nev)],
             "fail": fp["producer_fail"] if i == failing else None,
             "fail_at": r.choice([0.05, 0.4, 0.9])}
        p["events"].sort()
        producers.append(p)
    handlers = []
    for i in range(nprod):
        hs = []
        for _ in range(r.randint(1, 2)):
            hs.append({"dur": (10.0 ** 6 if long_handlers else r.choice([0.0, 0.0, 0.05, 0.3])),
                       "steps": r.choice([0, 1, 2]), "fail_on": [n for n in range(4) if r.random() < 0.15]})
        handlers.append(hs)
    jobs = [{"at": r.choice([0.0, 0.0, 0.3, 0.8]), "dur": (10.0 ** 6 if long_handlers and r.random() < 0.5 else r.choice([0.0, 0.05])),
             "fail": r.random() < 0.2} for _ in range(r.choice([0, 1, 3, 3, 5]))]
    at = {"before_init_done": 0.05, "during_main": r.choice([0.6, 1.2]), "pool_full": 1.5}[inst]
    sc = {"fault_point": fp, "dispatcher": fp["dispatcher"], "max_concurrent": mc, "producers": producers,
          "handlers": handlers, "jobs": jobs, "idle": r.choice([0, 0, 1, 3]) if rt else 0,
          "exit": fp["exit"], "exit_at": at, "stop_on_handler_exceptions": fp["exit"] == "handler_error",
          "custom_log_factory": r.random() < 0.4}
    if fp["producer_fail"] == "main" and fp["exit"] == "handler_error" and nprod >= 2 and r.random() < 0.5:
        # a producer fails; while the others are still winding down (slow reaction to their cancellation) a handler
        # that was in flight fails too and, with stop-on-error armed, requests a stop: the producer's error came first
        # and is what run() must raise
        sc["late_stop"] = True
        producers[failing]["fail_at"] = 0.4
        other = (failing + 1) % nprod
        for i, p in enumerate(producers):
            if i != failing:
                p["cancel_dur"] = 0.5
                p["main_dur"] = 1000.0
        producers[other]["events"] = [[0.0, 0.0]] + producers[other]["events"]
        handlers[other][0].update({"dur": 0.6, "steps": 0, "late_fail": True})
        sc["exit_at"] = 50.0
    sc["wrap_factory_in_handler"] = r.random() < 0.25
    x_ = r.random()
    if x_ < 0.12:
        sc["rerun_after"] = True
    elif x_ < 0.24 and fp["exit"] != "exhausted":
        sc["rerun_at"] = round(at * r.choice([0.3, 0.7]), 3)
    if fp["exit"] == "stop_outside" and r.random() < 0.3:
        sc["pre_run_stop"] = True
    # an idle handler may raise too: that is neither a producer's error nor the caller's cancellation
    sc["idle_fail"] = [n for n in range(8) if r.random() < 0.25] if sc["idle"] else []
    if fp["exit"] == "handler_error":
        # no accidental failures before the designated one when stop-on-error is armed
        for hs in handlers:
            for h in hs:
                h["fail_on"] = []
        for j in jobs:
            j["fail"] = False
    return sc


class Err(Exception):
    pass


class Run:
    def __init__(self, sc: Dict[str, Any]):
        self.sc = sc
        self.ptrace: List[tuple] = []       # (vtime, pid, phase)
        self.htrace: List[tuple] = []       # (vtime, kind, key, phase)
        self.inflight: Dict[Any, int] = collections.defaultdict(int)
        self.max_inflight = 0
        self.idle_while_busy = 0
        self.idle_failures = 0
        self.factory_wrapped = False
        self.second_run = None
        self.stop_repeated_at = None
        self.raised_by_producer: Dict[int, BaseException] = {}
        self.stop_requested_at: Optional[float] = None
        self.cancel_requested_at: Optional[float] = None
        self.first_producer_fault_at: Optional[float] = None
        self.outcome: Any = None
        self.ended_at: Optional[float] = None
        self.log_problems: List[str] = []
        self.handler_failures = 0
        self.events_pushed: List[tuple] = []
        self.double_fault = False

    # -------------------------------------------------------------------------------
    def _enter(self, key):
        self.inflight[key] += 1
        n = sum(1 for v in self.inflight.values() if v > 0)
        self.max_inflight = max(self.max_inflight, n)

    def _leave(self, key):
        self.inflight[key] -= 1

    def build(self, loop):
        from basana.core import dispatcher, event

        sc = self.sc
        run = self
        rt = sc["dispatcher"] == "realtime"
        self.loop = loop
        self.d = dispatcher.realtime_dispatcher(sc["max_concurrent"]) if rt else \
            dispatcher.backtesting_dispatcher(sc["max_concurrent"])
        self.d.stop_on_handler_exceptions = sc["stop_on_handler_exceptions"]
        t0 = loop.time()
        self.t0 = t0

        class Ev(event.Event):
            def __init__(self, when, eid):
                super().__init__(when)
                self.eid = eid

        def vt():
            return round(loop.time() - t0, 6)

        self.vt = vt
        eid = itertools.count(1)
        designated = {"handler": bool(sc.get("late_stop")), "job": False}

        class P(event.Producer):
            def __init__(self, pid, spec):
                self.pid = pid
                self.spec = spec
                self.source = None

            async def _phase(self, name, dur, fail_here, body=None):
                run.ptrace.append((vt(), self.pid, name + "_start"))
                try:
                    if fail_here:
                        await asyncio.sleep(min(dur, self.spec["fail_at"]) if name != "main" else self.spec["fail_at"])
                        exc = Err(f"producer {self.pid} fails in {name}")
                        if name in ("init", "main"):
                            run.raised_by_producer[self.pid] = exc
                            if run.first_producer_fault_at is None:
                                run.first_producer_fault_at = vt()
                        run.ptrace.append((vt(), self.pid, name + "_raised"))
                        raise exc
                    if body is not None:
                        await body()
                    else:
                        await asyncio.sleep(dur)
                    run.ptrace.append((vt(), self.pid, name + "_end"))
                except asyncio.CancelledError:
                    run.ptrace.append((vt(), self.pid, name + "_cancelled"))
                    if name == "main" and self.spec.get("cancel_dur"):
                        await asyncio.sleep(self.spec["cancel_dur"])      # e.g. closing a connection gracefully
                        run.ptrace.append((vt(), self.pid, "main_wound_down"))
                    raise

            async def initialize(self):
                await self._phase("init", self.spec["init_dur"], self.spec["fail"] == "initialize")

            async def main(self):
                async def body():
                    start = loop.time()
                    for at, off in self.spec["events"]:
                        delay = at - (loop.time() - start)
                        if delay > 0:
                            await asyncio.sleep(delay)
                        if rt:
                            import basana.core.dt as bdt
                            import datetime
                            when = bdt.utc_now() + datetime.timedelta(seconds=off)
                            e = Ev(when, next(eid))
                            run.events_pushed.append((self.pid, e.eid, vt()))
                            self.source.push(e)
                    rest = self.spec["main_dur"] - (loop.time() - start)
                    if rest > 0:
                        await asyncio.sleep(rest)
                await self._phase("main", self.spec["main_dur"], self.spec["fail"] in ("main", "main+finalize"), body)

            async def finalize(self):
                await self._phase("fin", self.spec["fin_dur"], self.spec["fail"] in ("finalize", "main+finalize"))

        self.producers = []
        import datetime
        for pid, spec in enumerate(sc["producers"]):
            p = P(pid, spec)
            if rt:
                src = event.FifoQueueEventSource(producer=p)
            else:
                base = datetime.datetime(2000, 1, 1, tzinfo=datetime.timezone.utc)
                evs = []
                for at, off in spec["events"]:
                    e = Ev(base + datetime.timedelta(seconds=at), next(eid))
                    evs.append(e)
                    run.events_pushed.append((pid, e.eid, None))
                src = event.FifoQueueEventSource(producer=p, events=evs)
            p.source = src
            self.producers.append(p)
            for hi, h in enumerate(sc["handlers"][pid]):
                self.d.subscribe(src, bt.shaped(self._mk_handler(pid, hi, h, designated), pid + 2 * hi))

        def mk_job(ji, spec):
            async def job():
                key = ("job", ji)
                run._enter(key)
                run.htrace.append((vt(), "job", ji, "start"))
                try:
                    if sc["exit"] == "stop_job" and not designated["job"] and vt() >= sc["exit_at"] - 1e-9 or \
                            (sc["exit"] == "stop_job" and not designated["job"] and sc["dispatcher"] == "backtesting"):
                        designated["job"] = True
                        run.stop_requested_at = vt() if run.stop_requested_at is None else run.stop_requested_at
                        run.d.stop()
                    if spec["dur"]:
                        await asyncio.sleep(spec["dur"])
                    run.htrace.append((vt(), "job", ji, "end"))
                    if spec["fail"]:
                        run.handler_failures += 1
                        if sc["stop_on_handler_exceptions"] and run.stop_requested_at is None:
                            run.stop_requested_at = vt()
                        raise bt.failure("job fails", ji)
                except asyncio.CancelledError:
                    run.htrace.append((vt(), "job", ji, "cancelled"))
                    raise
                finally:
                    run._leave(key)
            return job

        import basana.core.dt as bdt
        for ji, spec in enumerate(sc["jobs"]):
            if rt:
                when = bdt.utc_now() + datetime.timedelta(seconds=spec["at"])
            else:
                when = datetime.datetime(2000, 1, 1, tzinfo=datetime.timezone.utc) + datetime.timedelta(seconds=spec["at"])
            self.d.schedule(when, bt.shaped(mk_job(ji, spec), ji))
        if sc["exit"] == "stop_job" and rt:
            # a dedicated job that requests the stop at the scripted instant
            async def stopper_job():
                key = ("job", "stopper")
                run._enter(key)
                try:
                    run.stop_requested_at = vt() if run.stop_requested_at is None else run.stop_requested_at
                    run.d.stop()
                finally:
                    run._leave(key)
            self.d.schedule(bdt.utc_now() + datetime.timedelta(seconds=sc["exit_at"]), stopper_job)
        if rt:
            for k in range(sc["idle"]):
                self.d.subscribe_idle(bt.shaped(self._mk_idle(k), k + 1))

    def _mk_idle(self, k):
        run = self

        calls = [0]

        async def idle():
            if any(v > 0 for v in run.inflight.values()):
                run.idle_while_busy += 1
            run.htrace.append((run.vt(), "idle", k, "start"))
            n = calls[0]
            calls[0] += 1
            await asyncio.sleep(0.02)
            if n in run.sc.get("idle_fail", []):
                run.idle_failures += 1
                raise Err(f"idle handler {k} call {n}")
        return idle

    def _mk_handler(self, pid, hi, spec, designated):
        run = self
        sc = self.sc
        count = [0]

        async def handler(e):
            n = count[0]
            count[0] += 1
            key = ("ev", e.eid)
            run._enter(key)
            run.htrace.append((run.vt(), "h", (pid, hi, e.eid), "start"))
            try:
                due = run.vt() >= sc["exit_at"] - 1e-9 or sc["dispatcher"] == "backtesting"
                if sc["exit"] == "stop_handler" and not designated["handler"] and due:
                    designated["handler"] = True
                    run.stop_requested_at = run.vt() if run.stop_requested_at is None else run.stop_requested_at
                    run.d.stop()
                if sc["exit"] == "handler_error" and not designated["handler"] and due:
                    designated["handler"] = True
                    run.stop_requested_at = run.vt() if run.stop_requested_at is None else run.stop_requested_at
                    run.handler_failures += 1
                    raise Err("designated handler error")
                for _ in range(spec["steps"]):
                    await asyncio.sleep(0)
                if spec["dur"]:
                    await asyncio.sleep(spec["dur"])
                run.htrace.append((run.vt(), "h", (pid, hi, e.eid), "end"))
                if sc.get("wrap_factory_in_handler") and not run.factory_wrapped:
                    # the logging-cookbook pattern: a handler chains its own record factory on the current one
                    run.factory_wrapped = True
                    cur = logging.getLogRecordFactory()

                    def chained(*a, **kw):
                        rec = cur(*a, **kw)
                        rec.handler_tag = "h"
                        return rec
                    logging.setLogRecordFactory(chained)
                if n in spec["fail_on"] or (spec.get("late_fail") and n == 0):
                    run.handler_failures += 1
                    if sc["stop_on_handler_exceptions"] and run.stop_requested_at is None:
                        run.stop_requested_at = run.vt()
                    raise bt.failure("handler fails", n + hi)
            except asyncio.CancelledError:
                run.htrace.append((run.vt(), "h", (pid, hi, e.eid), "cancelled"))
                raise
            finally:
                run._leave(key)
        return handler

    # -------------------------------------------------------------------------------
    def execute(self):
        sc = self.sc
        orig_factory = logging.getLogRecordFactory()
        if sc.get("custom_log_factory"):
            # an application may have its own record factory installed process-wide before the run
            def tagging_factory(*a, **kw):
                rec = orig_factory(*a, **kw)
                rec.app_tag = "vf"
                return rec
            logging.setLogRecordFactory(tagging_factory)
        f0 = logging.getLogRecordFactory()
        wall0 = time.time()
        import signal as _signal

        def app_handler(signum, frame):      # the application's own handlers: run(stop_signals=[]) leaves them alone
            pass
        old_sig = {sg: _signal.signal(sg, app_handler) for sg in (_signal.SIGTERM, _signal.SIGINT)}
        with vclock.virtual_time() as loop:
            self.build(loop)

            async def main():
                if sc.get("pre_run_stop"):
                    # stop() was already called once before run() (a signal that arrived early): the request made while
                    # running is the one that must end the run
                    self.d.stop()
                    self.stop_requested_at = 0.0
                task = asyncio.ensure_future(self.d.run(stop_signals=[]))

                async def second_run():
                    # somebody calls run() again while it is running: it is refused, and the live run is not disturbed
                    await asyncio.sleep(sc["rerun_at"])
                    if task.done():
                        return
                    try:
                        await self.d.run(stop_signals=[])
                        self.second_run = "returned"
                    except AssertionError:
                        self.second_run = "refused"
                    except BaseException as ex:  # noqa
                        self.second_run = f"raised {type(ex).__name__}"

                async def outside():
                    await asyncio.sleep(sc["exit_at"])
                    if task.done():
                        return
                    if sc["exit"] == "stop_outside":
                        self.stop_requested_at = self.vt() if self.stop_requested_at is None else self.stop_requested_at
                        self.stop_repeated_at = self.vt()
                        self.d.stop()
                    elif sc["exit"] == "cancel":
                        self.cancel_requested_at = self.vt()
                        task.cancel()

                async def watchdog():
                    # realtime runs without a scripted stop would never end: bound every scenario in virtual time
                    await asyncio.sleep(3000.0 if sc["dispatcher"] == "backtesting" else 30.0)
                    if not task.done():
                        self.watchdog_fired = True
                        self.d.stop()

                o = asyncio.ensure_future(outside()) if sc["exit"] in ("stop_outside", "cancel") else None
                w = asyncio.ensure_future(watchdog())
                r2 = asyncio.ensure_future(second_run()) if sc.get("rerun_at") is not None else None
                try:
                    await task
                    self.outcome = ("returned", None)
                except asyncio.CancelledError as ex:
                    self.outcome = ("cancelled", ex)
                except BaseException as ex:  # noqa
                    self.outcome = ("raised", ex)
                self.ended_at = self.vt()
                for t in (o, w, r2):
                    if t is not None:
                        t.cancel()
                await asyncio.sleep(0)
                if sc.get("rerun_after"):
                    # run() once more after the run is over: refused, and nothing is finalised a second time
                    try:
                        await asyncio.wait_for(self.d.run(stop_signals=[]), timeout=50)
                        self.second_run = "returned"
                    except AssertionError:
                        self.second_run = "refused"
                    except BaseException as ex:  # noqa
                        self.second_run = f"raised {type(ex).__name__}"

            self.watchdog_fired = False
            loop.run_until_complete(main())
        for sg, prev in old_sig.items():
            if _signal.getsignal(sg) is not app_handler:
                self.log_problems.append(f"signal handler of {sg!r} replaced although run() was given stop_signals=[]")
            _signal.signal(sg, prev)
        # ---- logging behaves as before the run
        f1 = logging.getLogRecordFactory()
        if f1 is not f0 and not self.factory_wrapped:
            # (a factory a handler installed itself during the run is the application's own business: then only the
            # behaviour is judged - real timestamps, no failure)
            self.log_problems.append("log record factory was not restored")
        try:
            rec = logging.getLogger("vf.c14.probe").makeRecord("vf.c14.probe", logging.WARNING, __file__, 1, "probe %s", ("x",), None)
            if rec.created < wall0 - 1:
                self.log_problems.append(f"log record stamped {rec.created}, wall clock {wall0}")
            logging.getLogger("vf.c14.probe").warning("probe")
        except Exception as ex:
            self.log_problems.append(f"logging raises after the run: {type(ex).__name__}: {ex}")
            if sc.get("custom_log_factory") and getattr(rec, "app_tag", None) != "vf":
                self.log_problems.append("records created after the run no longer come from the factory that was "
                                         "installed before it")
        finally:
            logging.setLogRecordFactory(orig_factory)
        return self

    # -------------------------------------------------------------------------------
    def check(self) -> List[tuple]:
        sc = self.sc
        out: List[tuple] = []
        n = len(sc["producers"])
        by_pid: Dict[int, List[tuple]] = collections.defaultdict(list)
        for t, pid, ph in self.ptrace:
            by_pid[pid].append((t, ph))
        # 1. mains only after every initialize ended
        init_ends = [t for t, pid, ph in self.ptrace if ph == "init_end"]
        main_starts = [(i, t, pid) for i, (t, pid, ph) in enumerate(self.ptrace) if ph == "main_start"]
        if main_starts:
            first_main_idx = main_starts[0][0]
            done_before = {pid for (t, pid, ph) in self.ptrace[:first_main_idx] if ph == "init_end"}
            if len(done_before) != n:
                out.append(("main_before_all_initialized",
                            f"a producer's main started when only {len(done_before)}/{n} producers were initialised: {self.ptrace[:8]}"))
        # 2. finalize exactly once for every producer
        for pid in range(n):
            k = sum(1 for t, ph in by_pid[pid] if ph == "fin_start")
            if k != 1:
                out.append(("finalize_count", f"producer {pid} finalised {k} times on exit path {sc['exit']} "
                                              f"(producer failing in {sc['fault_point']['producer_fail']}); phases {by_pid[pid]}"))
        # ... and the finalisation is over when run() hands control back (not left running detached)
        if not self.double_fault and self.cancel_requested_at is None:
            for pid in range(n):
                phs = [ph for t, ph in by_pid[pid]]
                if "fin_start" in phs and not any(p in ("fin_end", "fin_raised") for p in phs):
                    out.append(("finalize_not_completed",
                                f"run() ended at {self.ended_at}s while producer {pid}'s finalize() was still running "
                                f"(phases {by_pid[pid][-3:]}; another producer failing in "
                                f"{sc['fault_point']['producer_fail']})"))
        # finalize only after the producer's main is over
        for pid in range(n):
            phs = [ph for t, ph in by_pid[pid]]
            if "fin_start" in phs and "main_start" in phs:
                i_f = phs.index("fin_start")
                if not any(p in ("main_end", "main_raised", "main_cancelled") for p in phs[:i_f]):
                    out.append(("finalize_before_main_over", f"producer {pid}: {phs}"))
        # 3. outcome
        kind, ex = self.outcome
        causes = []
        if self.first_producer_fault_at is not None:
            causes.append((self.first_producer_fault_at, "producer"))
        if self.stop_requested_at is not None:
            causes.append((self.stop_requested_at, "stop"))
        if self.cancel_requested_at is not None:
            causes.append((self.cancel_requested_at, "cancel"))
        causes.sort()
        first = causes[0][1] if causes else ("exhausted" if not self.watchdog_fired else "watchdog")
        ambiguous = len(causes) >= 2 and abs(causes[0][0] - causes[1][0]) < 1e-6
        # an outside cancellation that arrives after another fault already ended the run (i.e. while the dispatcher is
        # finalising) is a double fault: outside the enumerated product, either outcome is accepted
        if self.cancel_requested_at is not None and first != "cancel":
            ambiguous = True
            self.double_fault = True
        if sc.get("pre_run_stop"):
            ambiguous = True      # a stop requested before run() and whatever ends the run later: either outcome
        if kind == "raised":
            if not any(ex is e for e in self.raised_by_producer.values()):
                out.append(("internal_error_from_run", f"run() raised {type(ex).__name__}: {ex} (exit path {sc['exit']}, "
                                                       f"dispatcher {sc['dispatcher']}, pool {sc['max_concurrent']})"))
            elif first not in ("producer",) and not ambiguous:
                out.append(("unexpected_outcome", f"run() raised the producer's error although {first} came first"))
        elif kind == "cancelled":
            if self.cancel_requested_at is None:
                out.append(("internal_error_from_run", f"run() raised CancelledError without an outside cancellation "
                                                       f"(exit path {sc['exit']})"))
            elif first != "cancel" and not ambiguous:
                out.append(("unexpected_outcome", f"run() raised CancelledError although {first} came first"))
        else:
            if first == "producer" and not ambiguous:
                out.append(("producer_error_swallowed", f"run() returned although a producer raised at {self.first_producer_fault_at}"))
            if first == "cancel" and not ambiguous:
                out.append(("cancellation_swallowed", "run() returned although it was cancelled from outside"))
        # 4. promptness (virtual seconds)
        if sc.get("pre_run_stop"):
            # the early request found nothing to cancel; promptness is owed to the request made while running
            causes = [(self.stop_repeated_at, "stop")] if self.stop_repeated_at is not None else []
        if causes and self.ended_at is not None and first != "exhausted":
            budget = sum(p["fin_dur"] for p in sc["producers"]) + 1.0 + max([p.get("cancel_dur", 0.0) for p in sc["producers"]])
            if self.ended_at - causes[0][0] > budget + 1e-6:
                out.append(("not_prompt", f"{first} at {causes[0][0]}s but run() ended at {self.ended_at}s "
                                          f"(budget {budget}s): in-flight handlers awaited instead of cancelled?"))
        # 5. bound
        if self.max_inflight > sc["max_concurrent"]:
            out.append(("concurrency_bound_exceeded", f"{self.max_inflight} events/jobs in flight, max_concurrent={sc['max_concurrent']}"))
        if self.idle_while_busy:
            out.append(("idle_handler_while_busy", f"{self.idle_while_busy} idle-handler starts with events/jobs in flight"))
        # 6. isolation (only where no exit cut the run short): every pushed event reached every handler of its source
        if first == "exhausted" and sc["dispatcher"] == "backtesting" and kind == "returned":
            starts = collections.Counter((k[0], k[1], k[2]) for t, kd, k, ph in self.htrace if kd == "h" and ph == "start")
            for pid, eid, _ in self.events_pushed:
                for hi in range(len(sc["handlers"][pid])):
                    if starts.get((pid, hi, eid), 0) != 1:
                        out.append(("isolation_event_lost", f"event {eid} of producer {pid} started {starts.get((pid, hi, eid), 0)} "
                                                            f"times in handler {hi} ({self.handler_failures} handler/job failures)"))
            jstarts = collections.Counter(k for t, kd, k, ph in self.htrace if kd == "job" and ph == "start")
            for ji in range(len(sc["jobs"])):
                if jstarts.get(ji, 0) != 1:
                    out.append(("isolation_job_lost", f"job {ji} started {jstarts.get(ji, 0)} times"))
        # 7. logging
        for p in self.log_problems:
            out.append(("signal_handler_replaced" if "signal handler" in p else "logging_not_restored", f"{p} (exit path {sc['exit']}, outcome {kind}, producer failing in "
                                                f"{sc['fault_point']['producer_fail']})"))
        return out


def classify(kind: str, msg: str, run: Run) -> str:
    if kind == "internal_error_from_run" and "KeyError" in msg and run.sc["dispatcher"] == "realtime":
        return "taskpool_double_collect"
    if kind == "logging_not_restored" and run.outcome[0] in ("raised", "cancelled"):
        return "log_factory_not_restored_on_error"
    return ""


def evaluate(sc: Dict[str, Any], res: ShardResult) -> Run:
    from vf.dispx import poolcontract
    poolcontract.install()
    run = Run(sc).execute()
    res.evaluations += 1
    res.count("producer_phase_events", len(run.ptrace))
    res.count("handler_trace_events", len(run.htrace))
    res.count("outcome_" + run.outcome[0])
    res.count("cancelled_handlers", sum(1 for r_ in run.htrace if r_[3] == "cancelled"))
    res.count("exit_" + sc["exit"])
    res.count("double_fault_runs", 1 if run.double_fault else 0)
    res.count("idle_handler_failures", run.idle_failures)
    res.count("second_run_" + str(run.second_run))
    res.count("watchdog_ended_runs", 1 if run.watchdog_fired else 0)
    if run.max_inflight >= sc["max_concurrent"]:
        res.count("pool_saturated_runs")
    fp = sc["fault_point"]
    for kind, msg in run.check():
        res.violate(Violation("C14", kind, msg, scenario=sc, mechanism=classify(kind, msg, run)))
    for msg in poolcontract.drain():
        res.violate(Violation("C14", "taskpool_size_invariant", msg, scenario=sc))
    inflight_at_end = any(r_[3] == "cancelled" for r_ in run.htrace)
    has_fault = fp["exit"] != "exhausted" or fp["producer_fail"]
    if has_fault and (inflight_at_end or run.max_inflight >= sc["max_concurrent"]):
        phases = tuple(ph for t, pid, ph in run.ptrace if pid == 0)
        res.nontrivial.add(common.digest([fp, sc["max_concurrent"], len(sc["producers"]), len(sc["jobs"]), sc["idle"],
                                          run.outcome[0], phases, min(run.max_inflight, 5)]))
    res.sample({"fault_point": fp, "max_concurrent": sc["max_concurrent"], "producers": len(sc["producers"]),
                "jobs": len(sc["jobs"]), "outcome": run.outcome[0], "ended_at_virtual_s": run.ended_at,
                "producer_trace": [list(x) for x in run.ptrace[:10]], "max_in_flight": run.max_inflight})
    return run


def run_shard(ctx: Context, res: ShardResult) -> None:
    from vf.dispx import poolcontract
    space = fault_space()
    sen = sentinel.Sentinel(WATCH, lines=False)
    sen.start()
    try:
        for i in ctx.case_ids():
            if ctx.out_of_time():
                res.errors.append("ran out of time")
                break
            fp = space[i % len(space)]
            evaluate(gen(ctx.rng("c14", i), fp), res)
            res.nontrivial  # noqa
    finally:
        sen.stop()
    res.count("contract:TaskPool.push", poolcontract.COUNT["push"])
    for name, n in sen.calls.items():
        res.sentinel("call:" + name, n)


def replay(prop: str, scenario: Dict[str, Any], res: ShardResult) -> None:
    evaluate(scenario, res)


def finalize(prop: str, tier: str, merged: ShardResult) -> Dict[str, Any]:
    inc = []
    c = merged.counters
    n = len(fault_space())
    if merged.evaluations < n:
        inc.append(f"only {merged.evaluations} of {n} fault points executed")
    for k in ("outcome_returned", "outcome_raised", "outcome_cancelled", "cancelled_handlers", "pool_saturated_runs",
              "contract:TaskPool.push"):
        if c.get(k, 0) < 3:
            inc.append(f"'{k}' observed only {c.get(k, 0)} times")
    return {"inconclusive": inc, "coverage": {"fault_points": n, "exhaustive": True,
                                              "runs_per_fault_point": merged.evaluations // max(n, 1)}}
