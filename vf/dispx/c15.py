"""C15 - realtime dispatcher: nothing runs early, per-source order, bounded progress (DESIGN.md section 4, C15).

The real RealtimeDispatcher runs under the virtual-time loop (its 10 ms polling included); feeders push
events and schedule jobs at scripted virtual instants; handlers record the substituted clock.
"""
from __future__ import annotations

import asyncio
import collections
import datetime
from typing import Any, Dict, List, Optional

from vf import common, sentinel, vclock
from vf.dispx import bt
from vf.common import Context, Plan, ShardResult, Violation

LEVELS = {"C15": "exploration"}
RULES = {"C15": (
    "scenario = (1-5 FIFO sources, events pushed at virtual instants with event time in the past / now / up to a few "
    "seconds ahead, in and out of order per source, jobs scheduled from outside and from handlers relative to now, "
    "handler durations 0-2 s, max_concurrent in {1,2,5,50}, 0-3 idle handlers, horizon <= 60 virtual s). Non-trivial: "
    ">= 1 future-dated item and >= 1 out-of-order event or a saturated pool. Distinct = digest of the per-source "
    "pattern (offset class, order class), job offset classes, pool size, idle handlers and the observed drop set.")}
ASSUMPTIONS = {"C15": [
    "'eventually dispatched once due' is decided as bounded progress: every due, in-order item has started by "
    "(last due instant + sum of handler durations + 0.05 s per item + 1 s); with an unsaturated pool within 0.1 "
    "virtual seconds of becoming eligible",
    "an event becomes eligible when it is due, pushed, and its predecessor in the same FIFO source has been taken "
    "(head-of-line blocking by a future-dated predecessor is inherent to one-event prefetching)",
    "the clock is the substituted basana.core.dt.utc_now (same clock the dispatcher reads)",
]}
WATCH = ["basana.core.dispatcher", "basana.core.helpers"]
US = datetime.timedelta(microseconds=1)


TZS = [{"TZ": "UTC"}, {"TZ": "XXX-3"}, {"TZ": "EST5EDT"}, {"TZ": "XYZ-5:30"}]


def plan(prop: str, tier: str) -> Plan:
    # every shard is an interpreter with its own process time zone (the dispatcher's clock must be UTC regardless)
    if tier == "quick":
        return Plan(shards=4, cases_per_shard=120, timeout_s=600, shard_env=TZS)
    return Plan(shards=16, cases_per_shard=1200, timeout_s=3000, shard_env=TZS)


def check_real_clock(res: ShardResult) -> None:
    """The virtual-time scenarios substitute basana.core.dt.utc_now; the real one is checked here, bracketed by two
    readings of the system clock (no deadline involved), under the shard's process time zone."""
    import time as _time
    import os
    import basana.core.dt as bdt
    from basana.core import dispatcher
    d = dispatcher.realtime_dispatcher()
    for _ in range(200):
        t0 = _time.time()
        u = bdt.utc_now()
        n = d.now()
        t1 = _time.time()
        res.count("real_clock_readings")
        for name, val in (("utc_now()", u), ("RealtimeDispatcher.now()", n)):
            if val.tzinfo is None or val.utcoffset() != datetime.timedelta(0):
                res.violate(Violation("C15", "clock_not_utc", f"{name} returned {val!r}", scenario={"real_clock": True}))
                return
            ts = val.timestamp()
            if not (t0 - 0.001 <= ts <= t1 + 0.001):
                res.violate(Violation("C15", "clock_is_not_current_utc",
                                      f"{name} = {val.isoformat()} but the system clock read {t0:.3f}..{t1:.3f} "
                                      f"(process TZ={os.environ.get('TZ')}): items would be dispatched {t0 - ts:+.0f}s off",
                                      scenario={"real_clock": True}))
                return


def gen(r) -> Dict[str, Any]:
    mc = r.choice([1, 2, 5, 50, 50])
    nsrc = r.randint(1, 5)
    pushes = []
    t = 0.0
    for _ in range(r.randint(3, 30)):
        t += r.choice([0.0, 0.0, 0.001, 0.02, 0.3, 1.0])
        p = {"at": round(t, 3), "src": r.randrange(nsrc),
             "off": r.choice([0.0, 0.0, 0.0, -0.5, -5.0, 0.3, 2.0, 4.0]),
             "dur": r.choice([0.0, 0.0, 0.0, 0.05, 0.5, 2.0]), "sched": []}
        if r.random() < 0.15:
            p["sched"].append({"dt": r.choice([-1.0, 0.0, 0.5, 3.0]), "dur": r.choice([0.0, 0.2])})
        pushes.append(p)
    jobs = []
    for _ in range(r.choice([0, 1, 3, 6])):
        jobs.append({"at": round(r.uniform(0, max(t, 1.0)), 3), "dt": r.choice([-1.0, 0.0, 0.0, 0.5, 3.0]),
                     "dur": r.choice([0.0, 0.0, 0.2, 1.0]), "fail": r.random() < 0.1})
    if r.random() < 0.35:
        # many jobs pending at once, scheduled in non-chronological order with distinct due times
        k = r.randint(6, 14)
        offs = r.sample([round(0.4 * i, 1) for i in range(1, 30)], k)
        t0j = round(r.uniform(0, 1.0), 3)
        jobs += [{"at": t0j, "dt": o, "dur": 0.0, "fail": False} for o in offs]
    jobs.sort(key=lambda j: j["at"])
    return {"max_concurrent": mc, "nsrc": nsrc, "pushes": pushes, "jobs": jobs,
            "idle": r.choice([0, 0, 1, 3]), "idle_dur": r.choice([0.01, 0.02, 0.05]),
            "handlers_per_source": r.choice([1, 1, 2]),
            "tz_minutes": r.choice([[0], [0], [0, -300, 330], [540, -480, 0, 60]])}


class Run:
    def __init__(self, sc):
        self.sc = sc
        self.rows: List[tuple] = []     # (vtime, kind, id, phase, when_vt)
        self.errors: List[tuple] = []   # (vtime, text)
        self.idle_starts: List[tuple] = []
        self.inflight = 0
        self.max_inflight = 0
        self.outcome = None
        self.sniffed: List[tuple] = []
        self.sniffers = 0
        self.shared_initial = False

    def execute(self):
        from basana.core import dispatcher, event
        import basana.core.dt as bdt
        sc = self.sc
        run = self
        with vclock.virtual_time() as loop:
            t0 = loop.now_ns()
            base = loop.utc_now()

            def vt() -> float:
                return (loop.now_ns() - t0) / 1e9

            def vt_of(dt: datetime.datetime) -> float:
                return (dt - base) / datetime.timedelta(seconds=1)

            class D(dispatcher.RealtimeDispatcher):
                def on_error(self, error):
                    run.errors.append((vt(), str(error)))

            d = D(max_concurrent=sc["max_concurrent"])

            class Ev(event.Event):
                def __init__(self, when, eid, dur, sched):
                    super().__init__(when)
                    self.eid, self.dur, self.sched = eid, dur, sched

                def __len__(self):
                    # an event type with a length (a batch of items): some are empty, none is judged by that
                    return 0 if self.eid % 7 == 3 else 1

            # several sources may belong to one producer (the channels of one websocket connection): ordering is
            # still a per-source matter
            shared = event.Producer() if sc.get("shared_producer", len(sc["pushes"]) % 3 == 0) else None
            srcs = [event.FifoQueueEventSource(producer=shared) for _ in range(sc["nsrc"])]
            pushed: List[Dict[str, Any]] = []
            if sc.get("shared_initial", len(sc["pushes"]) % 5 == 1 and sc["nsrc"] >= 2):
                # two sources are built from one and the same list of initial events: each delivers all of them
                initial = [Ev(base, 10000 + i, 0.0, []) for i in range(3)]
                for s_ in (0, 1):
                    srcs[s_] = event.FifoQueueEventSource(producer=shared, events=initial)
                    for e_ in initial:
                        pushed.append({"eid": e_.eid, "src": s_, "when": 0.0, "pushed_at": 0.0, "dur": 0.0})
                run.shared_initial = True
            job_info: Dict[int, Dict[str, Any]] = {}

            def mk_job(jid, when, dur, fail=False):
                async def job():
                    now = bdt.utc_now()
                    run.inflight += 1
                    run.max_inflight = max(run.max_inflight, run.inflight)
                    run.rows.append((vt(), "job", jid, "start", vt_of(when), now >= when))
                    try:
                        if dur:
                            await asyncio.sleep(dur)
                        if fail:
                            raise bt.failure("job fails", jid)
                    finally:
                        run.inflight -= 1
                        run.rows.append((vt(), "job", jid, "end", vt_of(when), True))
                return job

            tzs = sc.get("tz_minutes", [0])

            def in_tz(when, k):
                # the same instant expressed in another UTC offset: aware datetimes of any zone are legal inputs
                off = tzs[k % len(tzs)]
                return when.astimezone(datetime.timezone(datetime.timedelta(minutes=off))) if off else when

            def schedule(when, dur, by, fail=False):
                jid = len(job_info)
                when = in_tz(when, jid)
                job_info[jid] = {"when": vt_of(when), "sched_at": vt(), "dur": dur, "by": by}
                d.schedule(when, bt.shaped(mk_job(jid, when, dur, fail), jid))

            def mk_handler(si, hi):
                async def handler(e):
                    now = bdt.utc_now()
                    run.inflight += 1
                    run.max_inflight = max(run.max_inflight, run.inflight)
                    run.rows.append((vt(), "ev", (e.eid, hi, si), "start", vt_of(e.when), now >= e.when))
                    try:
                        if hi == 0:
                            for sj in e.sched:
                                schedule(now + datetime.timedelta(seconds=sj["dt"]), sj["dur"], by=f"ev{e.eid}")
                        if e.dur:
                            await asyncio.sleep(e.dur)
                        if hi == 0 and e.eid % 5 == 3:
                            raise bt.failure("handler fails", e.eid)      # must not affect the other handler / later items
                    finally:
                        run.inflight -= 1
                        run.rows.append((vt(), "ev", (e.eid, hi, si), "end", vt_of(e.when), True))
                return handler

            for si, s in enumerate(srcs):
                for hi in range(sc["handlers_per_source"]):
                    d.subscribe(s, bt.shaped(mk_handler(si, hi), si + 2 * hi))

            def mk_idle(k):
                async def idle():
                    if ACTIVE["run"] is not run:
                        LEAKED.append(f"idle handler {k} of an earlier dispatcher was run by another dispatcher")
                        return
                    run.idle_starts.append((vt(), k, run.inflight))
                    if sc["idle_dur"]:
                        await asyncio.sleep(sc["idle_dur"])
                return idle

            for k in range(sc["idle"]):
                d.subscribe_idle(bt.shaped(mk_idle(k), k + 1))

            if sc.get("sniffers", len(sc["pushes"]) % 2 == 0):
                # catch-all handlers: an event that is dropped reaches nobody, them included
                def mk_sniffer(which):
                    async def sniffer(e):
                        if hasattr(e, "eid"):
                            run.sniffed.append((vt(), e.eid, which))
                    return sniffer
                d.subscribe_all(mk_sniffer("front"), front_run=True)
                d.subscribe_all(mk_sniffer("back"))
                run.sniffers = 2

            async def feeder():
                for eid, p in enumerate(sc["pushes"]):
                    delay = p["at"] - vt()
                    if delay > 0:
                        await asyncio.sleep(delay)
                    when = in_tz(bdt.utc_now() + datetime.timedelta(seconds=p["off"]), eid + 1)
                    pushed.append({"eid": eid, "src": p["src"], "when": vt_of(when), "pushed_at": vt(), "dur": p["dur"]})
                    srcs[p["src"]].push(Ev(when, eid, p["dur"], p["sched"]))

            async def job_feeder():
                for j in sc["jobs"]:
                    delay = j["at"] - vt()
                    if delay > 0:
                        await asyncio.sleep(delay)
                    schedule(bdt.utc_now() + datetime.timedelta(seconds=j["dt"]), j["dur"], by=None, fail=j.get("fail", False))

            total_dur = sum(p["dur"] * sc["handlers_per_source"] for p in sc["pushes"]) + \
                sum(j["dur"] for j in sc["jobs"]) + sum(sj["dur"] for p in sc["pushes"] for sj in p["sched"])
            n_items = len(sc["pushes"]) + len(sc["jobs"]) + sum(len(p["sched"]) for p in sc["pushes"])
            last_due = max([p["at"] + max(p["off"], 0.0) for p in sc["pushes"]] +
                           [j["at"] + max(j["dt"], 0.0) for j in sc["jobs"]] + [0.0]) + 3.0   # +3: jobs scheduled by handlers
            self.deadline = last_due + total_dur + 0.05 * n_items + 1.0

            async def main():
                task = asyncio.ensure_future(d.run(stop_signals=[]))
                await asyncio.gather(feeder(), job_feeder())
                rest = self.deadline - vt()
                if rest > 0:
                    await asyncio.sleep(rest)
                self.snapshot_rows = len(self.rows)
                d.stop()
                try:
                    await task
                    self.outcome = "returned"
                except BaseException as ex:  # noqa
                    self.outcome = f"raised {type(ex).__name__}: {ex}"

            loop.run_until_complete(main())
        self.pushed = pushed
        self.job_info = job_info
        return self

    def check(self) -> List[tuple]:
        sc = self.sc
        out: List[tuple] = []
        if self.outcome != "returned":
            out.append(("run_did_not_return", self.outcome))
        rows = self.rows[: self.snapshot_rows]
        ev_start: Dict[Any, List[tuple]] = collections.defaultdict(list)
        job_start: Dict[int, List[tuple]] = collections.defaultdict(list)
        for r in rows:
            if r[3] != "start":
                continue
            if not r[5]:
                out.append(("dispatched_early", f"{r[1]} {r[2]} with time {r[4]:.6f} started at {r[0]:.6f} (clock < item time)"))
            if r[0] < r[4] - 1e-6:
                out.append(("dispatched_early", f"{r[1]} {r[2]} with time {r[4]:.6f} started at virtual {r[0]:.6f}"))
            if r[1] == "ev":
                ev_start[(r[2][0], r[2][2])].append(r)
            else:
                job_start[r[2]].append(r)
        nh = sc["handlers_per_source"]
        # per-source reference: FIFO order, drop events older than the delivered predecessor
        by_src: Dict[int, List[dict]] = collections.defaultdict(list)
        for p in self.pushed:
            by_src[p["src"]].append(p)
        dropped_expected = set()
        delivered_expected = []
        for si, lst in by_src.items():
            prev = None
            for p in lst:
                if prev is not None and p["when"] < prev - 1e-9:
                    dropped_expected.add(p["eid"])
                else:
                    delivered_expected.append(p)
                    prev = p["when"]
        n_err = len(self.errors)
        for p in self.pushed:
            n = len(ev_start.get((p["eid"], p["src"]), []))
            if p["eid"] in dropped_expected:
                if n != 0:
                    out.append(("out_of_order_event_delivered",
                                f"event {p['eid']} of source {p['src']} (time {p['when']:.3f}) is older than its delivered "
                                f"predecessor but was delivered"))
            else:
                if n > nh:
                    out.append(("event_delivered_twice", f"event {p['eid']} started {n} times for {nh} handlers"))
                elif n < nh:
                    out.append(("due_event_not_dispatched",
                                f"event {p['eid']} of source {p['src']} (time {p['when']:.3f}, pushed at {p['pushed_at']:.3f}) "
                                f"started {n}/{nh} handlers by virtual {self.deadline:.2f} (pool {sc['max_concurrent']})"))
        if self.sniffers:
            seen = collections.Counter((eid, which) for (_t, eid, which) in self.sniffed)
            copies = collections.Counter(p["eid"] for p in self.pushed)
            for p in self.pushed:
                if p["eid"] in dropped_expected:
                    if any(seen.get((p["eid"], w)) for w in ("front", "back")):
                        out.append(("out_of_order_event_delivered",
                                    f"event {p['eid']} of source {p['src']} was dropped as out of order, yet the catch-all "
                                    f"handlers received it ({seen.get((p['eid'], 'front'), 0)} front-running, "
                                    f"{seen.get((p['eid'], 'back'), 0)} regular)"))
                        break
                elif len(ev_start.get((p["eid"], p["src"]), [])) == nh:
                    for w in ("front", "back"):
                        if seen.get((p["eid"], w), 0) != copies[p["eid"]] and p["eid"] not in dropped_expected:
                            out.append(("catch_all_delivery_count",
                                        f"event {p['eid']}: {w} catch-all handler called {seen.get((p['eid'], w), 0)} times, "
                                        f"expected {copies[p['eid']]}"))
                            break
        if n_err < len(dropped_expected):
            out.append(("dropped_event_not_reported", f"{len(dropped_expected)} out-of-order events but on_error was called {n_err} times"))
        if n_err > len(dropped_expected):
            out.append(("spurious_error_report", f"on_error called {n_err} times for {len(dropped_expected)} out-of-order events: {self.errors[:2]}"))
        # delivered order per source is non-decreasing in time
        for si, lst in by_src.items():
            started = sorted((ev_start[(p["eid"], si)][0][0], p["when"], p["eid"]) for p in lst if ev_start.get((p["eid"], si)))
            whens = [w for _, w, _ in started]
            if any(a > b + 1e-9 for a, b in zip(whens, whens[1:])):
                out.append(("source_order", f"source {si} delivered event times {whens}"))
        # jobs: exactly once, by the deadline
        for jid, info in self.job_info.items():
            n = len(job_start.get(jid, []))
            if n > 1:
                out.append(("job_ran_twice", f"job {jid} started {n} times"))
            if n == 0 and max(info["when"], info["sched_at"]) <= self.deadline - 1.0 - info["dur"]:
                out.append(("due_job_not_dispatched", f"job {jid} (time {info['when']:.3f}, scheduled at {info['sched_at']:.3f}) "
                                                      f"did not start by virtual {self.deadline:.2f}"))
        # idle handlers only when nothing is being handled
        for (t, k, inflight) in self.idle_starts:
            if inflight != 0:
                out.append(("idle_handler_while_busy", f"idle handler {k} started at {t:.3f} with {inflight} invocations in flight"))
                break
        # unsaturated class: lateness bound 0.1 virtual seconds after becoming eligible
        if sc["max_concurrent"] >= 50:
            for si, lst in by_src.items():
                prev_taken = 0.0
                for p in lst:
                    if p["eid"] in dropped_expected:
                        continue
                    if not ev_start.get((p["eid"], si)):
                        break
                    elig = max(p["when"], p["pushed_at"], prev_taken)
                    st = ev_start[(p["eid"], si)][0][0]
                    if st - elig > 0.1 + 1e-6:
                        out.append(("late_dispatch_unsaturated",
                                    f"event {p['eid']} eligible at {elig:.3f} started at {st:.3f} with a pool of {sc['max_concurrent']}"))
                    prev_taken = st
            for jid, info in self.job_info.items():
                if job_start.get(jid):
                    elig = max(info["when"], info["sched_at"])
                    st = job_start[jid][0][0]
                    if st - elig > 0.1 + 1e-6:
                        out.append(("late_dispatch_unsaturated", f"job {jid} eligible at {elig:.3f} started at {st:.3f}"))
        if self.max_inflight > sc["max_concurrent"] * max(1, nh) + 0:
            pass  # the concurrency bound is C14's; handler-level count can exceed the event-level bound
        return out


ACTIVE: Dict[str, Any] = {"run": None}
LEAKED: List[str] = []


def evaluate(sc: Dict[str, Any], res: ShardResult) -> Run:
    run = Run(sc)
    ACTIVE["run"] = run
    del LEAKED[:]
    run.execute()
    if LEAKED:
        res.violate(Violation("C15", "idle_handler_of_another_dispatcher_ran",
                              f"{len(LEAKED)} calls: {LEAKED[0]} (dispatchers of one process share nothing)", scenario=sc))
    res.evaluations += 1
    res.count("trace_rows", len(run.rows))
    res.count("events_pushed", len(run.pushed))
    res.count("jobs_scheduled", len(run.job_info))
    res.count("on_error_reports", len(run.errors))
    res.count("idle_handler_starts", len(run.idle_starts))
    res.count("future_dated_items", sum(1 for p in sc["pushes"] if p["off"] > 0) + sum(1 for j in sc["jobs"] if j["dt"] > 0))
    if run.max_inflight >= sc["max_concurrent"]:
        res.count("pool_saturated_runs")
    for kind, msg in run.check():
        res.violate(Violation("C15", kind, f"pool={sc['max_concurrent']} sources={sc['nsrc']} idle={sc['idle']}: {msg}", scenario=sc))
    fut = any(p["off"] > 0 for p in sc["pushes"]) or any(j["dt"] > 0 for j in sc["jobs"])
    if fut and (run.errors or run.max_inflight >= sc["max_concurrent"]):
        pat = sorted((p["src"], p["off"], p["dur"] > 0) for p in sc["pushes"])
        res.nontrivial.add(common.digest([sc["max_concurrent"], sc["idle"], pat, [(j["dt"], j["dur"] > 0) for j in sc["jobs"]], len(run.errors)]))
    res.sample({"max_concurrent": sc["max_concurrent"], "sources": sc["nsrc"], "idle": sc["idle"],
                "pushes": [(p["at"], p["src"], p["off"], p["dur"]) for p in sc["pushes"][:6]],
                "jobs": [(j["at"], j["dt"]) for j in sc["jobs"][:4]],
                "first_starts": [(round(r_[0], 3), r_[1], str(r_[2]), round(r_[4], 3)) for r_ in run.rows if r_[3] == "start"][:6],
                "dropped_reports": len(run.errors), "virtual_horizon_s": round(run.deadline, 2)})
    return run


def run_shard(ctx: Context, res: ShardResult) -> None:
    sen = sentinel.Sentinel(WATCH, lines=False)
    sen.start()
    try:
        check_real_clock(res)
        for i in ctx.case_ids():
            if ctx.out_of_time():
                res.errors.append("ran out of time")
                break
            evaluate(gen(ctx.rng("c15", i)), res)
    finally:
        sen.stop()
    for name, n in sen.calls.items():
        res.sentinel("call:" + name, n)


def replay(prop: str, scenario: Dict[str, Any], res: ShardResult) -> None:
    if scenario.get("real_clock"):
        check_real_clock(res)
    else:
        evaluate(scenario, res)


def finalize(prop: str, tier: str, merged: ShardResult) -> Dict[str, Any]:
    inc = []
    c = merged.counters
    for k, n in (("events_pushed", 500), ("jobs_scheduled", 50), ("on_error_reports", 20), ("idle_handler_starts", 100),
                 ("future_dated_items", 50), ("pool_saturated_runs", 10)):
        if c.get(k, 0) < n:
            inc.append(f"'{k}' observed only {c.get(k, 0)} times (< {n})")
    return {"inconclusive": inc}
