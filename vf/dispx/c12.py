"""C12 - backtesting dispatcher: global time order and exactly-once delivery (DESIGN.md section 4, C12)."""
from __future__ import annotations

from typing import Any, Dict, List

from vf import common, sentinel
from vf.common import Context, Plan, ShardResult, Violation
from vf.dispx import bt

LEVELS = {"C12": "exploration"}
RULES = {"C12": (
    "scenario = (1-8 FIFO sources with tied / distinct timestamps, 0-3 handlers per source incl. duplicate "
    "subscriptions, 0-2 front-running and 0-2 trailing sniffers, 0-2 derived sources fed by handlers with when >= now, "
    "max_concurrent in {1,2,3,5,8,50} incl. fewer slots than sources, 0-4 suspension points per handler, raising "
    "handlers). Non-trivial: >= 2 sources (or a derived source) with a timestamp tie or inversion across sources and "
    ">= 1 suspension point. Distinct = digest of the interleaving signature (trace with ids abstracted).")}
ASSUMPTIONS = {"C12": [
    "every source yields its events in non-decreasing time order (the statement's premise); derived events are pushed "
    "by handlers with when >= now and non-decreasing per source",
    "events pushed by scheduled jobs are outside the quantifier and are not generated",
]}
WATCH = ["basana.core.dispatcher", "basana.core.helpers", "basana.core.event"]


def plan(prop: str, tier: str) -> Plan:
    if tier == "quick":
        return Plan(shards=4, cases_per_shard=1200, timeout_s=400)
    return Plan(shards=16, cases_per_shard=100000, timeout_s=3000)


def gen(r) -> Dict[str, Any]:
    mc = r.choice([1, 1, 2, 3, 5, 8, 50])
    nsrc = r.randint(1, 8)
    nder = r.choice([0, 0, 1, 2])
    sources = []
    for _ in range(nsrc):
        t = r.choice([0, 0, 1, 5])
        evs = []
        # a third of the sources tick in fractions of a second (several events inside one UTC second)
        steps = [0, 0, 1, 2, 7] if r.random() < 0.65 else [0, 0.001, 0.25, 0.5, 0.125, 1, 0.75]
        for _ in range(r.randint(0, 6)):
            t = round(t + r.choice(steps), 3)      # exact in microseconds: no float noise between sources
            evs.append(t)
        sources.append({"events": evs, "producer": r.random() < 0.3})
    if r.random() < 0.04:
        # one long feed: several hundred events through a single source (queues that release consumed items in chunks)
        k = r.randrange(nsrc)
        t = 0
        evs = []
        for _ in range(r.randint(300, 700)):
            t += r.choice([0, 1, 1, 2])
            evs.append(t)
        sources[k]["events"] = evs
    if nsrc >= 2 and r.random() < 0.15:
        j = r.randrange(1, nsrc)
        sources[j]["alias_of"] = r.randrange(0, j)     # built from the same list object as an earlier source
        sources[j]["events"] = list(sources[sources[j]["alias_of"]]["events"])
    subs: List[Dict[str, Any]] = []
    hid = 0
    order = list(range(nsrc + nder))
    r.shuffle(order)
    for si in order:
        for _ in range(r.randint(1 if si >= nsrc else 0, 3)):
            hid += 1
            sub = {"kind": "h", "id": hid, "source": si, "steps": r.choice([0, 0, 1, 2, 4]), "bound": r.random() < 0.4,
                   "fail_on": [n for n in range(8) if r.random() < 0.1], "push": [],
                   "plain": r.random() < 0.25, "sync_fail_on": [n for n in range(8) if r.random() < 0.15]}
            if nder and si < nsrc + nder:
                for n in range(8):
                    if r.random() < 0.3:
                        to = r.randrange(nder)
                        # a derived source may feed another derived source, never itself (keeps runs finite)
                        if si >= nsrc and to <= si - nsrc:
                            continue
                        sub["push"].append({"on": n, "to": to, "delay": r.choice([0, 0, 1, 3])})
            subs.append(sub)
            if r.random() < 0.2:
                subs.append(dict(sub))    # duplicate subscription: must be ignored
    for kind in ("pre", "post"):
        for _ in range(r.choice([0, 0, 1, 2])):
            hid += 1
            s = {"kind": kind, "id": hid, "steps": r.choice([0, 1, 2]), "fail_on": [n for n in range(20) if r.random() < 0.05],
                 "bound": r.random() < 0.4}
            subs.append(s)
            if r.random() < 0.2:
                subs.append(dict(s))
    # sniffers may be registered anywhere in the subscription sequence
    r.shuffle(subs) if r.random() < 0.3 else None
    # keep relative order of handlers of the same source stable after shuffling? not needed: order of subscribe calls
    # *is* the subscription order the oracle uses.
    if r.random() < 0.3:
        # handlers schedule jobs, also for times already in the past: the clock clauses hold across them too
        for sub in subs:
            if sub["kind"] == "h" and r.random() < 0.5:
                sub["schedule"] = [{"on": n, "job": {"dt": r.choice([-7.0, -1.0, 0.0, 0.5, 3.0]), "steps": r.choice([0, 1]),
                                                     "fail": r.random() < 0.1, "schedule": []}}
                                   for n in range(6) if r.random() < 0.3]
    if r.random() < 0.1:
        # some handlers stay suspended for seconds (of virtual time): a pass lasts until the slowest one is done
        for sub in subs:
            if sub.get("steps") and r.random() < 0.5:
                sub["sleep"] = r.choice([0.5, 3.0, 7.0, 12.0])
    return {"max_concurrent": mc, "sources": sources, "derived": nder, "subscriptions": subs, "jobs": [],
            "stop_on_handler_exceptions": False, "tz_minutes": r.choice([[0], [0], [0, -300, 330], [540, -480, 60]])}


def evaluate(sc: Dict[str, Any], res: ShardResult) -> bt.BtRun:
    run = bt.BtRun(sc).run()
    res.evaluations += 1
    res.count("trace_events", len(run.trace.rows))
    res.count("handler_invocations", sum(1 for row in run.trace.rows if row[1] == "start"))
    res.count("derived_events", len(run.pushed_by))
    res.count("raising_handlers_fired", sum(1 for s in sc["subscriptions"] if s.get("fail_on")))
    for kind, msg in check_all(run):
        res.violate(Violation("C12", kind, f"max_concurrent={sc['max_concurrent']} sources={len(sc['sources'])} "
                                           f"derived={sc['derived']}: {msg}", scenario=sc))
    whens = [t for s in sc["sources"] for t in s["events"]]
    ties = len(whens) != len(set(whens))
    susp = any(s.get("steps") for s in sc["subscriptions"])
    if (len([s for s in sc["sources"] if s["events"]]) >= 2 or run.pushed_by) and ties and susp:
        res.nontrivial.add(common.digest(bt.interleaving_signature(run)))
    res.sample({"max_concurrent": sc["max_concurrent"], "sources": [s["events"] for s in sc["sources"]],
                "derived": sc["derived"], "handlers": len(sc["subscriptions"]), "trace_len": len(run.trace.rows),
                "trace_head": [list(map(str, row)) for row in run.trace.rows[:6]]})
    return run


def check_all(run: bt.BtRun):
    return bt.check_c12(run)


def run_shard(ctx: Context, res: ShardResult) -> None:
    sen = sentinel.Sentinel(WATCH, lines=True)
    sen.start()
    try:
        for i in ctx.case_ids():
            if ctx.out_of_time():
                res.errors.append("ran out of time")
                break
            evaluate(gen(ctx.rng("c12", i)), res)
    finally:
        sen.stop()
    for name, n in sen.calls.items():
        res.sentinel("call:" + name, n)
    for f, n in sen.lines_per_file().items():
        res.sentinel("lines_hit:" + f, n)


def replay(prop: str, scenario: Dict[str, Any], res: ShardResult) -> None:
    evaluate(scenario, res)


def finalize(prop: str, tier: str, merged: ShardResult) -> Dict[str, Any]:
    inc = []
    if merged.counters.get("handler_invocations", 0) < 5000:
        inc.append("fewer than 5000 handler invocations traced")
    if merged.counters.get("derived_events", 0) < 100:
        inc.append("fewer than 100 derived events pushed by handlers")
    return {"inconclusive": inc}
