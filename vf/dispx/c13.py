"""C13 - scheduled jobs run exactly once, on time and in order (DESIGN.md section 4, C13)."""
from __future__ import annotations

import itertools
from typing import Any, Dict, List

from vf import common, sentinel
from vf.common import Context, Plan, ShardResult, Violation
from vf.dispx import bt

LEVELS = {"C13": "exploration"}
RULES = {"C13": (
    "scenario = (1-3 event sources, multiset of job times before / between / equal to / after the event times, an "
    "insertion order of those jobs, jobs scheduled from handlers and from other jobs into the past and the future, "
    "raising jobs, suspension points, max_concurrent in {1,2,3,50}). The thorough tier enumerates every insertion "
    "order (all permutations) of every multiset of up to 5 job slots. Non-trivial: >= 2 jobs whose insertion order is "
    "not ascending in time, or a job scheduled from a handler / job. Distinct = digest of (event times, job times in "
    "insertion order relative to event times, who schedules what, failures, max_concurrent).")}
ASSUMPTIONS = {"C13": [
    "'in non-decreasing scheduled-time order' is read for jobs pending at the same moment (a job scheduled into the "
    "past cannot run before jobs that already ran); equal times are free",
    "an event of the *current* clock value that was already popped when a job was scheduled may start before that job; "
    "a derived event of that clock value pushed in the same pass (not popped yet) may not",
    "jobs scheduled by jobs of the final drain are only required not to run twice",
]}
WATCH = ["basana.core.dispatcher", "basana.core.helpers"]

SLOTS = [-3.0, 2.5, 5.0, 7.5, 10.0, 14.0, 20.0, 30.0, 40.0, 40.0]


def plan(prop: str, tier: str) -> Plan:
    if tier == "quick":
        return Plan(shards=4, cases_per_shard=1500, timeout_s=400)
    return Plan(shards=16, cases_per_shard=150000, timeout_s=3000)


def base_scenario(r, job_times: List[float]) -> Dict[str, Any]:
    nsrc = r.randint(1, 3)
    sources = []
    for i in range(nsrc):
        evs = sorted(r.sample([0, 5, 5, 10, 10, 15], r.randint(1, 4))) if i else [0, 10]
        sources.append({"events": evs, "producer": False})
    subs = []
    hid = 0
    for si in range(nsrc):
        for _ in range(r.randint(1, 2)):
            hid += 1
            sub = {"kind": "h", "id": hid, "source": si, "steps": r.choice([0, 0, 1, 2]),
                   "fail_on": [n for n in range(6) if r.random() < 0.08], "push": [], "schedule": []}
            for n in range(5):
                if r.random() < 0.2:
                    sub["schedule"].append({"on": n, "job": _job(r, rel=True)})
            subs.append(sub)
    jobs = [{"t": t, "steps": r.choice([0, 0, 1, 2]), "fail": r.random() < 0.12, "schedule": _children(r),
             "plain": r.random() < 0.2, "sync_fail": r.random() < 0.4}
            for t in job_times]
    return {"max_concurrent": r.choice([1, 2, 3, 50]), "sources": sources, "derived": 0, "subscriptions": subs,
            "jobs": jobs, "stop_on_handler_exceptions": False,
            "tz_minutes": r.choice([[0], [0], [0, -300, 330], [540, -480, 60]])}


def _job(r, rel: bool, depth: int = 0) -> Dict[str, Any]:
    j = {"dt": r.choice([-7.0, -1.0, 0.0, 0.0, 0.5, 3.0, 6.0, 25.0, 100.0]), "steps": r.choice([0, 0, 1]),
         "fail": r.random() < 0.1, "schedule": []}
    if depth < 2 and r.random() < 0.25:
        j["schedule"].append(_job(r, True, depth + 1))
    return j


def _children(r) -> List[Dict[str, Any]]:
    return [_job(r, True, 1)] if r.random() < 0.2 else []


def gen(r) -> Dict[str, Any]:
    n = r.choice([0, 1, 2, 3, 3, 4, 5, 8])
    times = [r.choice(SLOTS) for _ in range(n)]
    if r.random() < 0.25:
        # many distinct due times in a random insertion order (heap shapes beyond the small exhaustive sweep)
        times = r.sample([-3.0] + [1.5 * i for i in range(1, 40)], r.randint(6, 16))
    mode = r.choice(["random", "ascending", "descending", "random"])
    if mode == "ascending":
        times.sort()
    elif mode == "descending":
        times.sort(reverse=True)
    return base_scenario(r, times)


def derived_scenario(r) -> Dict[str, Any]:
    """Directed: a handler pushes an event of the current clock value into a derived source (handled in the next pass)
    and, in the same invocation or another one of that pass, schedules a job that is already due."""
    sc = base_scenario(r, [r.choice(SLOTS) for _ in range(r.choice([0, 1, 2]))])
    nsrc = len(sc["sources"])
    sc["derived"] = 1
    hid = max(s_["id"] for s_ in sc["subscriptions"])
    sc["subscriptions"].append({"kind": "h", "id": hid + 1, "source": nsrc, "steps": r.choice([0, 1]), "fail_on": [],
                                "push": [], "schedule": []})
    prim = [s_ for s_ in sc["subscriptions"] if s_["source"] < nsrc]
    for n in range(r.choice([1, 2, 3])):
        on = r.randrange(0, 3)
        r.choice(prim)["push"].append({"on": on, "to": 0, "delay": 0})
        r.choice(prim)["schedule"].append({"on": on, "job": {"dt": r.choice([-7.0, -1.0, -0.5, 0.0]), "steps": r.choice([0, 1]),
                                                            "fail": False, "schedule": []}})
    return sc


def sweep_cases():
    """Every insertion order of every multiset of <= 4 jobs over 6 distinguished slots (incl. a duplicate time),
    plus all permutations of 5 distinct slots: the finite space of the 'whatever order they were scheduled in' clause."""
    slots = [2.5, 10.0, 20.0, 30.0, 40.0, 40.0]
    seen = set()
    for k in range(1, 5):
        for combo in itertools.combinations(range(len(slots)), k):
            for perm in itertools.permutations(combo):
                key = tuple(slots[i] for i in perm)
                if key not in seen:
                    seen.add(key)
                    yield list(key)
    for perm in itertools.permutations([12.0, 20.0, 30.0, 40.0, 50.0]):
        yield list(perm)


def evaluate(sc: Dict[str, Any], res: ShardResult) -> bt.BtRun:
    run = bt.BtRun(sc).run()
    res.evaluations += 1
    res.count("trace_events", len(run.trace.rows))
    res.count("jobs_scheduled", len(run.jobs))
    res.count("job_starts", sum(1 for row in run.trace.rows if row[2] == "job" and row[1] == "start"))
    res.count("jobs_scheduled_by_handlers_or_jobs", sum(1 for j in run.jobs.values() if j["by"]))
    last_ev = max([t for s in sc["sources"] for t in s["events"]], default=0)
    res.count("jobs_after_last_event", sum(1 for j in run.jobs.values() if j["when"] > last_ev))
    for kind, msg in bt.check_c13(run):
        # classifier for the known mechanism: a job placed beyond the last event was dropped by the final drain
        mech = "final_drain_horizon" if kind == "job_never_ran" and "never ran" in msg and \
            float(msg.split("scheduled for t=")[1].split(" ")[0]) > last_ev else ""
        res.violate(Violation("C13", kind, f"max_concurrent={sc['max_concurrent']} initial job times "
                                           f"{[j['t'] for j in sc['jobs']]}: {msg}", scenario=sc, mechanism=mech))
    ins = [j["t"] for j in sc["jobs"]]
    nonasc = any(a > b for a, b in zip(ins, ins[1:]))
    nested = any(j["by"] for j in run.jobs.values())
    if (len(ins) >= 2 and nonasc) or nested:
        res.nontrivial.add(common.digest([sc["max_concurrent"], [s["events"] for s in sc["sources"]], ins,
                                          sorted((j["by"] or "", j["when"]) for j in run.jobs.values()),
                                          [j.get("fail") for j in sc["jobs"]]]))
    res.sample({"max_concurrent": sc["max_concurrent"], "events": [s["events"] for s in sc["sources"]],
                "job_times_in_insertion_order": ins,
                "ran": [(row[3], row[5], row[6]) for row in run.trace.rows if row[2] == "job" and row[1] == "start"][:8]})
    return run


def run_shard(ctx: Context, res: ShardResult) -> None:
    sen = sentinel.Sentinel(WATCH, lines=False)
    sen.start()
    try:
        for i in ctx.case_ids():
            if ctx.out_of_time():
                res.errors.append("ran out of time")
                break
            evaluate(gen(ctx.rng("c13", i)), res)
        # directed: derived events of the current clock value next to jobs scheduled into the past (own random stream)
        for k in range(ctx.shard, 400 if ctx.tier == "quick" else 40000, ctx.nshards):
            if ctx.out_of_time():
                res.errors.append("ran out of time")
                break
            evaluate(derived_scenario(ctx.rng("c13derived", k)), res)
            res.count("derived_same_time_scenarios")
        # exhaustive insertion orders (small: a few thousand runs); split over the shards, both tiers
        for k, times in enumerate(sweep_cases()):
            if k % ctx.nshards != ctx.shard:
                continue
            r = ctx.rng("c13sweep", k)
            sc = base_scenario(r, times)
            if ctx.tier == "quick" and k % 4 != ctx.seed % 4:
                continue
            evaluate(sc, res)
            res.count("sweep_insertion_orders")
    finally:
        sen.stop()
    for name, n in sen.calls.items():
        res.sentinel("call:" + name, n)


def replay(prop: str, scenario: Dict[str, Any], res: ShardResult) -> None:
    evaluate(scenario, res)


def finalize(prop: str, tier: str, merged: ShardResult) -> Dict[str, Any]:
    inc = []
    c = merged.counters
    if c.get("job_starts", 0) < 2000:
        inc.append("fewer than 2000 job executions traced")
    if c.get("jobs_after_last_event", 0) < 200:
        inc.append("fewer than 200 jobs beyond the last event")
    if c.get("jobs_scheduled_by_handlers_or_jobs", 0) < 200:
        inc.append("fewer than 200 jobs scheduled from handlers / jobs")
    cov = {}
    if tier == "thorough":
        cov["exhaustive_insertion_orders"] = c.get("sweep_insertion_orders", 0)
    return {"inconclusive": inc, "coverage": cov}
