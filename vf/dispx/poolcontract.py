"""icontract post-condition on the real TaskPool.push (applied from the harness): the pool never holds more
tasks than its size. The condition records and returns True (see vf/exsim/contracts.py for why)."""
from __future__ import annotations

from typing import List

COUNT = {"push": 0}
_PROBLEMS: List[str] = []
_INSTALLED = False


class ContractBroken(Exception):
    pass


def pool_within_size(self) -> bool:
    COUNT["push"] += 1
    if len(self._tasks) > self._max_size:
        _PROBLEMS.append(f"TaskPool holds {len(self._tasks)} tasks after push, size {self._max_size}")
    return True


def install() -> None:
    global _INSTALLED
    if _INSTALLED:
        return
    import icontract
    from basana.core import helpers
    helpers.TaskPool.push = icontract.ensure(pool_within_size, error=ContractBroken)(helpers.TaskPool.push)
    _INSTALLED = True


def drain() -> List[str]:
    out = list(_PROBLEMS)
    _PROBLEMS.clear()
    return out
