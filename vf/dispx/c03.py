"""C03 - no look-ahead; backtest results independent of dispatcher concurrency (DESIGN.md section 4, C03).

Clause 1 (every handler, 0-4 suspension points): for every accepted order the submission clock
T = dispatcher.now() is recorded by the proxy; every fill event of that order must have when > T.

Clause 2 (non-suspending handlers): the normalised history (orders numbered by creation, fills,
final balances) must have the same digest for every max_concurrent, for several PYTHONHASHSEED values
(each shard is a separate interpreter with its own hash seed and runs the *same* strategies; the
parent compares digests across shards) and across repetitions.
"""
from __future__ import annotations

import asyncio
import collections
import datetime
import os
from decimal import Decimal as D
from typing import Any, Dict, List, Optional

from vf import common, sentinel
from vf.common import Context, Plan, ShardResult, Violation

LEVELS = {"C03": "exploration"}
RULES = {"C03": (
    "strategy = (1-6 bar sources with shared / distinct timestamps, a random interleaving of add_bar_source / "
    "subscribe_to_bar_events / subscribe_to_order_events / trading-signal subscriptions, scripted order / cancel / "
    "signal actions issued from bar, order-event and signal handlers, reacting on pair A's bar by trading pairs B, C, "
    "optional margin lending, 0-4 suspension points per handler). Every strategy runs under max_concurrent in "
    "{1,2,3,4,8,50} x 2 repetitions in each of 4 interpreters with different hash seeds. Non-trivial: more sources "
    "than the smallest pool, >= 1 order placed on a pair other than the one whose bar is handled, and >= 1 fill. "
    "Distinct = digest of the strategy shape (sources, setup order, action kinds per handler).")}
ASSUMPTIONS = {"C03": [
    "clause 2 is evaluated only for strategies whose handlers never suspend (the statement's premise)",
    "orders are identified by creation order (ids are random uuids)",
    "infinite liquidity and ample funds, so that fills depend only on which bar is used",
]}
WATCH = ["basana.core.dispatcher", "basana.core.helpers", "basana.backtesting.exchange", "basana.backtesting.order_mgr"]
POOLS = [1, 2, 3, 4, 8, 50]
HASH_SEEDS = ["0", "1", "2", "random"]
UTC = datetime.timezone.utc
T0 = datetime.datetime(2001, 1, 1, tzinfo=UTC)


QUERIES = ["balances", "balance", "bid_ask", "pair_info", "open_orders", "orders", "order_info", "loans"]


def T(day: int) -> datetime.datetime:
    return T0 + datetime.timedelta(days=day)


def plan(prop: str, tier: str) -> Plan:
    if tier == "quick":
        return Plan(shards=4, cases_per_shard=150, timeout_s=600, shard_env=[{"PYTHONHASHSEED": h} for h in HASH_SEEDS])
    seeds = HASH_SEEDS + ["3", "4", "5", "7", "11", "13", "17", "random", "random", "random", "random", "random"]
    return Plan(shards=16, cases_per_shard=800, timeout_s=3000, shard_env=[{"PYTHONHASHSEED": h} for h in seeds])


def gen_contention(r) -> Dict[str, Any]:
    """Long history with resting limit orders that compete for scarce per-bar liquidity: the order in which the
    exchange walks its open orders (also after its periodic re-indexing) decides who gets filled."""
    npairs = r.choice([1, 2])
    pairs = [f"{n}/USD" for n in ["AAA", "BBB"][:npairs]]
    ndays = r.randint(60, 90)
    bars = {}
    for i, p in enumerate(pairs):
        rows = []
        for d in range(1, ndays + 1):
            px = 1000 - 6 * d + 50 * i
            rows.append([d, str(px), str(px + 3), str(px - 3), str(px - 1), r.choice(["4", "6", "10"])])
        bars[p] = rows
    setup = [["src", p] for p in pairs] + [["sub", p] for p in pairs]
    if r.random() < 0.5:
        setup.append(["order_events"])
    r.shuffle(setup)
    scripts: Dict[str, List[List[Dict[str, Any]]]] = {}
    for p in pairs:
        inv = []
        for d in range(ndays + 2):
            acts = []
            if d < 6 or r.random() < 0.05:
                for _ in range(r.choice([1, 2, 3])):
                    acts.append({"a": "order", "pair": r.choice(pairs), "kind": "limit", "side": "buy",
                                 "amount": r.choice(["2", "3", "5"]), "px": r.choice(["0.6", "0.65", "0.7"]), "px2": "1",
                                 "auto_borrow": False, "auto_repay": False})
            inv.append(acts)
        scripts["bar:" + p] = inv
    return {"pairs": pairs, "bars": bars, "setup": setup, "scripts": scripts, "suspend": False, "lend": False,
            "nsig": 0, "liq": ["25", "0"], "scarce": False, "variant": "contention", "shared_lists": r.random() < 0.5}


def gen_loans(r) -> Dict[str, Any]:
    """Short sales that each borrow exactly their amount (the account holds no base asset), so several loans of the
    same size and different age are open when an auto-repay buy can afford to repay just one of them: which one is
    repaid (and so the interest paid) must not vary from run to run."""
    npairs = r.choice([1, 2])
    pairs = [f"{n}/USD" for n in ["AAA", "BBB"][:npairs]]
    ndays = r.randint(8, 14)
    bars = {p: [[d, str(100 + 3 * d + 40 * i), str(104 + 3 * d + 40 * i), str(97 + 3 * d + 40 * i), str(101 + 3 * d + 40 * i), "1000"]
                for d in range(1, ndays + 1)] for i, p in enumerate(pairs)}
    setup = [["src", p] for p in pairs] + [["sub", p] for p in pairs] + [["order_events"]]
    r.shuffle(setup)
    scripts: Dict[str, List[List[Dict[str, Any]]]] = {}
    for p in pairs:
        inv = []
        for d in range(ndays + 2):
            acts = []
            x = r.random()
            if d < ndays // 2 and x < 0.7:
                acts.append({"a": "order", "pair": r.choice(pairs), "kind": "market", "side": "sell", "amount": "1", "px": "1",
                             "px2": "1", "auto_borrow": True, "auto_repay": False})
            elif d >= ndays // 2 and x < 0.6:
                acts.append({"a": "order", "pair": r.choice(pairs), "kind": "market", "side": "buy", "amount": "1", "px": "1",
                             "px2": "1", "auto_borrow": False, "auto_repay": True})
            inv.append(acts)
        scripts["bar:" + p] = inv
    return {"pairs": pairs, "bars": bars, "setup": setup, "scripts": scripts, "suspend": False, "lend": True, "nsig": 0,
            "liq": None, "scarce": True, "no_base": True, "variant": "loans", "shared_lists": r.random() < 0.5,
            # with a high requirement the fourth or fifth short sale is refused: the refusal itself is part of the history
            "margin_req": r.choice(["0.2", "3", "3"])}


def gen(r) -> Dict[str, Any]:
    x0 = r.random()
    if x0 < 0.15:
        return gen_contention(r)
    if x0 < 0.23:
        return gen_loans(r)
    npairs = r.choice([1, 2, 3, 3, 4, 5, 6])
    names = ["AAA", "BBB", "CCC", "DDD", "EEE", "FFF"][:npairs]
    pairs = [f"{n}/USD" for n in names]
    ndays = r.randint(3, 8)
    shared = r.random() < 0.6
    bars = {}
    for i, p in enumerate(pairs):
        base = 100 * (i + 1)
        days = list(range(1, ndays + 1)) if shared else sorted(r.sample(range(1, ndays + 3), ndays))
        bars[p] = [[d, str(base + 10 * d), str(base + 10 * d + 5), str(base + 10 * d - 5), str(base + 10 * d + 1), "1000"]
                   for d in days]
    suspend = r.random() < 0.4
    nsig = r.choice([0, 0, 1, 2])
    lend = r.random() < 0.35
    single_feed = npairs >= 3 and r.random() < 0.3
    # one feed may carry the bars of several pairs (several events with the same timestamp from one source)
    setup = [["src_all"]] if single_feed else [["src", p] for p in pairs]
    bar_handlers = [p for p in pairs if r.random() < 0.7] or [pairs[0]]
    setup += [["sub", p] for p in bar_handlers]
    second = [p for p in bar_handlers if r.random() < 0.35]        # a second, independent handler on the same pair
    setup += [["sub2", p] for p in second]
    order_events = r.random() < 0.6
    if order_events:
        setup.append(["order_events"])
    setup += [["signal", k] for k in range(nsig)]
    r.shuffle(setup)

    def actions(kind: str) -> List[Dict[str, Any]]:
        out = []
        for _ in range(r.choice([0, 1, 1, 2, 3])):
            if suspend and r.random() < 0.5:
                out.append({"a": "yield", "n": r.randint(1, 4)})
            if r.random() < 0.3:
                # a read-only exchange call before acting: library calls are not suspension points of the strategy
                out.append({"a": "query", "which": r.choice(QUERIES), "pair": r.choice(pairs)})
            x = r.random()
            if x < 0.65:
                p = r.choice(pairs)
                k = r.choice(["market", "market", "limit", "stop", "stop_limit"])
                out.append({"a": "order", "pair": p, "kind": k, "side": r.choice(["buy", "sell"]),
                            "amount": r.choice(["1", "2", "0.5"]), "px": r.choice(["0.9", "1", "1.1"]),
                            "px2": r.choice(["0.9", "1", "1.1"]), "auto_borrow": lend and r.random() < 0.5,
                            "auto_repay": lend and r.random() < 0.3})
            elif x < 0.8:
                out.append({"a": "cancel", "pick": r.randrange(50)})
            elif nsig and kind != "signal":
                # a signal may carry several pairs; its handler walks them in the order they were added
                extra = r.sample(pairs, r.randint(0, len(pairs))) if r.random() < 0.6 else []
                out.append({"a": "signal", "k": r.randrange(nsig), "pair": r.choice(pairs),
                            "pos": r.choice(["LONG", "SHORT", "NEUTRAL"]),
                            "extra": [[p2, r.choice(["LONG", "SHORT", "NEUTRAL"])] for p2 in extra]})
            if suspend and r.random() < 0.3:
                out.append({"a": "yield", "n": r.randint(1, 2)})
        return out

    scripts: Dict[str, List[List[Dict[str, Any]]]] = {}
    for p in bar_handlers:
        scripts["bar:" + p] = [actions("bar") for _ in range(ndays + 3)]
    for p in second:
        scripts["bar2:" + p] = [actions("bar") if r.random() < 0.5 else [] for _ in range(ndays + 3)]
    if order_events:
        scripts["order_events"] = [actions("order_events") if r.random() < 0.25 else [] for _ in range(60)]
    for k in range(nsig):
        scripts[f"signal:{k}"] = [([{"a": "follow", "amount": r.choice(["1", "2"])}] if r.random() < 0.6 else []) + actions("signal")
                                  for _ in range(20)]
    return {"pairs": pairs, "bars": bars, "setup": setup, "scripts": scripts, "suspend": suspend, "lend": lend,
            "nsig": nsig, "liq": None, "scarce": r.random() < 0.5, "variant": "mixed", "shared_lists": r.random() < 0.5}


def build_bar_lists(sc: Dict[str, Any]) -> Dict[str, list]:
    """The bar events of every pair as plain lists, built once per strategy: a sweep over max_concurrent / repeated
    runs typically hands the *same* lists to every new event source."""
    from basana.core import bar
    from basana.core.pair import Pair
    out = {}
    for p, rows in sc["bars"].items():
        b, q = p.split("/")
        pair = Pair(b, q)
        out[p] = [bar.BarEvent(T(day), bar.Bar(T(day - 1), pair, D(o), D(h), D(low), D(c), D(v)))
                  for (day, o, h, low, c, v) in rows]
    out["*"] = sorted((ev for lst in out.values() for ev in lst), key=lambda ev: ev.when)
    return out


class OneRun:
    def __init__(self, sc: Dict[str, Any], max_concurrent: int, shared_lists: Optional[Dict[str, list]] = None,
                 shared_lending: Optional[list] = None):
        self.sc = sc
        self.shared_lending = shared_lending
        self.mc = max_concurrent
        self.shared_lists = shared_lists
        self.orders: List[Dict[str, Any]] = []      # creation order
        self.by_id: Dict[str, Dict[str, Any]] = {}
        self.look_ahead: List[str] = []
        self.counts: collections.Counter = collections.Counter()
        self.rejected: List[tuple] = []
        self.cross_pair_orders = 0
        self.outcome = None

    async def _main(self):
        from basana.core import dispatcher, event, bar, enums
        from basana.core.pair import Pair, PairInfo
        from basana.core.event_sources import trading_signal as ts
        from basana.backtesting import exchange, liquidity, lending, errors as bterrors
        from basana.core import errors as core_errors
        Op = enums.OrderOperation

        sc = self.sc
        d = dispatcher.backtesting_dispatcher(max_concurrent=self.mc)
        kw: Dict[str, Any] = {"liquidity_strategy_factory": liquidity.InfiniteLiquidity}
        if sc["lend"]:
            # the lending strategy is a configuration object: a sweep over pool sizes / repeated runs may hand the same
            # instance to every new exchange
            ls = self.shared_lending[0] if self.shared_lending else None
            if ls is None:
                ls = lending.MarginLoans("USD", default_conditions=lending.MarginLoanConditions(
                    interest_symbol="USD", interest_percentage=D("7"), interest_period=datetime.timedelta(days=365),
                    min_interest=D("0.01"), margin_requirement=D(sc.get("margin_req", "0.2"))))
                if self.shared_lending is not None:
                    self.shared_lending.append(ls)
            kw["lending_strategy"] = ls
        if sc.get("liq"):
            lim, imp = D(sc["liq"][0]), D(sc["liq"][1])
            kw["liquidity_strategy_factory"] = lambda: liquidity.VolumeShareImpact(lim, imp)
        # scarce funds: handlers compete for the same balance, so the order in which they run becomes observable
        init = {"USD": D("1500") if sc.get("scarce") else D("10000000")}
        for p in sc["pairs"]:
            init[p.split("/")[0]] = D("0") if sc.get("no_base") else D("1") if sc.get("scarce") else D("3")
        e = exchange.Exchange(d, init, **kw)
        pairs = {}
        for p in sc["pairs"]:
            b, q = p.split("/")
            pairs[p] = Pair(b, q)
            e.set_symbol_precision(b, 2)
        e.set_symbol_precision("USD", 2)
        signal_sources = [ts.TradingSignalSource(d) for _ in range(sc["nsig"])]
        inv: collections.Counter = collections.Counter()

        async def act(actions, ctx_pair: Optional[str], ev_when, ev=None):
            for a in actions:
                if a["a"] == "yield":
                    for _ in range(a["n"]):
                        await asyncio.sleep(0)
                elif a["a"] == "query":
                    self.counts["queries"] += 1
                    try:
                        w = a["which"]
                        if w == "balances":
                            await e.get_balances()
                        elif w == "balance":
                            await e.get_balance(a["pair"].split("/")[0])
                        elif w == "bid_ask":
                            await e.get_bid_ask(pairs[a["pair"]])
                        elif w == "pair_info":
                            await e.get_pair_info(pairs[a["pair"]])
                        elif w == "open_orders":
                            await e.get_open_orders(pairs[a["pair"]])
                        elif w == "orders":
                            await e.get_orders()
                        elif w == "order_info" and self.orders:
                            await e.get_order_info(self.orders[-1]["id"])
                        elif w == "loans":
                            await e.get_loans()
                    except core_errors.Error:
                        pass
                elif a["a"] == "follow":
                    # one market order per pair of the signal, in the order the signal lists them
                    if ev is not None and hasattr(ev, "get_pairs"):
                        todo = []
                        for pr, pos in ev.get_pairs():
                            if pos != enums.Position.NEUTRAL:
                                todo.append({"a": "order", "pair": f"{pr.base_symbol}/{pr.quote_symbol}", "kind": "market",
                                             "side": "buy" if pos == enums.Position.LONG else "sell", "amount": a["amount"],
                                             "px": "1", "px2": "1", "auto_borrow": False, "auto_repay": False})
                        self.counts["signal_pairs_followed"] += len(todo)
                        await act(todo, None, ev_when)
                elif a["a"] == "order":
                    pair = pairs[a["pair"]]
                    side = Op.BUY if a["side"] == "buy" else Op.SELL
                    last = D(next(b for b in reversed(sc["bars"][a["pair"]]) if True)[4])
                    ref = None
                    for b in sc["bars"][a["pair"]]:
                        if T(b[0]) <= d.now():
                            ref = D(b[4])
                    ref = ref if ref is not None else last
                    px = (ref * D(a["px"])).quantize(D("0.01"))
                    px2 = (ref * D(a["px2"])).quantize(D("0.01"))
                    kw2 = dict(auto_borrow=a["auto_borrow"], auto_repay=a["auto_repay"])
                    amt = D(a["amount"])
                    clock = d.now()
                    try:
                        if a["kind"] == "market":
                            co = await e.create_market_order(side, pair, amt, **kw2)
                        elif a["kind"] == "limit":
                            co = await e.create_limit_order(side, pair, amt, px, **kw2)
                        elif a["kind"] == "stop":
                            co = await e.create_stop_order(side, pair, amt, px, **kw2)
                        else:
                            co = await e.create_stop_limit_order(side, pair, amt, px, px2, **kw2)
                    except core_errors.Error as ex:
                        self.rejected.append((len(self.orders), type(ex).__name__))
                        continue
                    rec = {"n": len(self.orders), "id": co.id, "kind": a["kind"], "side": a["side"], "pair": a["pair"],
                           "amount": str(amt), "clock": clock, "fills": [], "last": (D(0), D(0))}
                    self.orders.append(rec)
                    self.by_id[co.id] = rec
                    if ctx_pair is not None and ctx_pair != a["pair"]:
                        self.cross_pair_orders += 1
                elif a["a"] == "cancel":
                    open_ = [o for o in self.orders if not o.get("closed")]
                    if open_:
                        o = open_[a["pick"] % len(open_)]
                        try:
                            await e.cancel_order(o["id"])
                        except core_errors.Error:
                            pass
                elif a["a"] == "signal":
                    pos = getattr(enums.Position, a["pos"])
                    sig = ts.TradingSignal(d.now(), pos, pairs[a["pair"]])
                    for p2, pos2 in a.get("extra", []):
                        if p2 != a["pair"]:
                            sig.add_pair(pairs[p2], getattr(enums.Position, pos2))
                    signal_sources[a["k"]].push(sig)

        def mk(name: str, ctx_pair: Optional[str]):
            async def handler(ev):
                n = inv[name]
                inv[name] += 1
                script = sc["scripts"].get(name, [])
                if n < len(script):
                    await act(script[n], ctx_pair, ev.when, ev)
            return handler

        async def on_order_event(ev):
            oi = ev.order
            rec = self.by_id.get(oi.id)
            if rec is not None:
                db = oi.amount_filled - rec["last"][0]
                dq = oi.quote_amount_filled - rec["last"][1]
                rec["last"] = (oi.amount_filled, oi.quote_amount_filled)
                if db > 0:
                    rec["fills"].append((ev.when.isoformat(), str(db), str(dq)))
                    self.counts["fills"] += 1
                    if ev.when <= rec["clock"]:
                        self.look_ahead.append(
                            f"{rec['kind']} {rec['side']} order #{rec['n']} on {rec['pair']} submitted at clock "
                            f"{rec['clock'].date()} was filled by the bar of {ev.when.date()} ({db} for {dq})")
                if not oi.is_open:
                    rec["closed"] = True
            n = inv["order_events"]
            inv["order_events"] += 1
            script = sc["scripts"].get("order_events", [])
            if n < len(script):
                await act(script[n], None, ev.when)

        always_order_events = True
        subscribed_order_events = False
        for step in sc["setup"]:
            if step[0] == "src_all":
                if self.shared_lists is not None:
                    allev = self.shared_lists["*"]
                else:
                    allev = build_bar_lists(sc)["*"]
                e.add_bar_source(event.FifoQueueEventSource(events=allev))
            elif step[0] == "src":
                p = step[1]
                if self.shared_lists is not None:
                    src = event.FifoQueueEventSource(events=self.shared_lists[p])
                else:
                    src = event.FifoQueueEventSource()
                    for (day, o, h, low, c, v) in sc["bars"][p]:
                        src.push(bar.BarEvent(T(day), bar.Bar(T(day - 1), pairs[p], D(o), D(h), D(low), D(c), D(v))))
                e.add_bar_source(src)
            elif step[0] == "sub":
                e.subscribe_to_bar_events(pairs[step[1]], mk("bar:" + step[1], step[1]))
            elif step[0] == "sub2":
                e.subscribe_to_bar_events(pairs[step[1]], mk("bar2:" + step[1], step[1]))
            elif step[0] == "order_events":
                e.subscribe_to_order_events(on_order_event)
                subscribed_order_events = True
            elif step[0] == "signal":
                signal_sources[step[1]].subscribe_to_trading_signals(mk(f"signal:{step[1]}", None))
        if not subscribed_order_events and always_order_events:
            e.subscribe_to_order_events(on_order_event)    # the monitor needs fill timestamps in every run
        await d.run(stop_signals=[])
        bal = {s: (str(b.available), str(b.hold), str(b.borrowed)) for s, b in sorted((await e.get_balances()).items())}
        infos = {o.id: o for o in await e.get_orders()}
        hist = []
        for rec in self.orders:
            oi = infos[rec["id"]]
            hist.append((rec["n"], rec["kind"], rec["side"], rec["pair"], rec["amount"], rec["clock"].isoformat(),
                         oi.is_open, str(oi.amount_filled), str(oi.quote_amount_filled), tuple(rec["fills"]),
                         tuple(sorted((k, str(v)) for k, v in oi.fees.items())), len(oi.loan_ids)))
        loans = sorted((lo.borrowed_symbol, str(lo.borrowed_amount), lo.is_open) for lo in await e.get_loans())
        self.history = {"orders": hist, "balances": bal, "loans": loans, "rejected": self.rejected}

    def run(self):
        import logging
        loop = asyncio.new_event_loop()
        asyncio.set_event_loop(loop)
        f0 = logging.getLogRecordFactory()
        try:
            loop.run_until_complete(asyncio.wait_for(self._main(), timeout=120))
            self.outcome = "ok"
        except (Exception, asyncio.CancelledError) as ex:
            self.outcome = f"{type(ex).__name__}: {ex}"
            self.history = {"error": self.outcome}
        finally:
            logging.setLogRecordFactory(f0)
            loop.close()
            asyncio.set_event_loop(None)
        return self


def evaluate(sc: Dict[str, Any], res: ShardResult, key: str) -> Dict[str, str]:
    """Runs one strategy under every pool size (twice) and returns {pool: digest} for the cross-process comparison."""
    digests: Dict[str, str] = {}
    ref = None
    ref_mc = None
    total_fills = 0
    cross = 0
    saw_look_ahead = False
    shared = build_bar_lists(sc) if sc.get("shared_lists") else None
    shared_lending: Optional[list] = [] if sc["lend"] and sc.get("shared_lists") else None
    for mc in POOLS:
        for rep in range(2):
            r = OneRun(sc, mc, shared, shared_lending).run()
            res.count("backtests")
            if r.outcome != "ok":
                res.violate(Violation("C03", "backtest_failed", f"max_concurrent={mc}: {r.outcome}", scenario=sc))
                continue
            res.count("orders_accepted", len(r.orders))
            res.count("fills_checked", r.counts["fills"])
            res.count("exchange_queries_from_handlers", r.counts["queries"])
            res.count("signal_pairs_followed", r.counts["signal_pairs_followed"])
            total_fills += r.counts["fills"]
            cross += r.cross_pair_orders
            saw_look_ahead = saw_look_ahead or bool(r.look_ahead)
            for msg in r.look_ahead[:2]:
                res.violate(Violation("C03", "fill_not_after_submission",
                                      f"max_concurrent={mc} sources={len(sc['pairs'])} setup={sc['setup']}: {msg}",
                                      scenario=dict(sc, only_pool=mc), mechanism=classify(sc, mc)))
            if not sc["suspend"]:
                dg = common.digest(r.history, 16)
                digests[str(mc)] = dg
                if ref is None:
                    ref, ref_mc, ref_hist = dg, mc, r.history
                elif dg != ref:
                    res.violate(Violation(
                        "C03", "history_depends_on_concurrency_or_run",
                        f"max_concurrent={mc} (repetition {rep}) differs from max_concurrent={ref_mc}: "
                        f"{first_difference(ref_hist, r.history)}", scenario=sc,
                        mechanism=classify(sc, min(mc, ref_mc)) if saw_look_ahead else ""))
                res.count("digest_comparisons")
    res.evaluations += 1
    if (len(sc["pairs"]) > 1 and cross and total_fills) or (sc.get("variant") in ("contention", "loans") and total_fills):
        shape = [len(sc["pairs"]), [s[0] for s in sc["setup"]], sc["suspend"], sc["lend"], sc["nsig"], sc.get("scarce"), sc.get("variant"),
                 sorted((k, sum(len(a) for a in v)) for k, v in sc["scripts"].items())]
        res.nontrivial.add(common.digest(shape))
    res.sample({"pairs": sc["pairs"], "setup": sc["setup"], "suspend": sc["suspend"], "lend": sc["lend"],
                "signal_sources": sc["nsig"], "first_script": next(iter(sc["scripts"].items()))[1][:2] if sc["scripts"] else [],
                "digests_by_pool": digests, "hash_seed": os.environ.get("PYTHONHASHSEED")})
    return digests


def classify(sc: Dict[str, Any], mc: int) -> str:
    # known mechanism: a saturated pool (fewer slots than events of one time) lets a derived event overtake a primary bar
    n_sources = len([s for s in sc["setup"] if s[0] in ("src", "src_all")]) + \
        len([s for s in sc["setup"] if s[0] in ("sub", "signal", "order_events")])
    return "derived_event_overtakes_primary_when_pool_saturated" if mc < n_sources else ""


def first_difference(a: Dict[str, Any], b: Dict[str, Any]) -> str:
    for k in ("orders", "balances", "loans", "rejected"):
        if a.get(k) != b.get(k):
            if k == "orders":
                for x, y in zip(a[k], b[k]):
                    if x != y:
                        return f"order #{x[0]} {x[1]} {x[2]} {x[3]}: {x[6:10]} vs {y[6:10]}"
                return f"{len(a[k])} vs {len(b[k])} orders"
            return f"{k}: {a.get(k)} vs {b.get(k)}"
    return "?"


def run_shard(ctx: Context, res: ShardResult) -> None:
    sen = sentinel.Sentinel(WATCH, lines=False)
    sen.start()
    table: Dict[str, Dict[str, str]] = {}
    try:
        for k in range(ctx.cases):
            if ctx.out_of_time():
                res.errors.append("ran out of time")
                break
            # every shard (= interpreter with its own hash seed) runs the *same* strategies
            sc = gen(common.rng("C03", ctx.seed, "strategy", k))
            table[str(k)] = evaluate(sc, res, str(k))
    finally:
        sen.stop()
    res.extra["digests"] = table
    res.extra["hash_seed"] = os.environ.get("PYTHONHASHSEED", "")
    res.extra["seed"] = ctx.seed
    for name, n in sen.calls.items():
        res.sentinel("call:" + name, n)


def replay(prop: str, scenario: Dict[str, Any], res: ShardResult) -> None:
    if "only_pool" in scenario:
        r = OneRun(scenario, scenario["only_pool"]).run()
        for msg in r.look_ahead[:2]:
            res.violate(Violation("C03", "fill_not_after_submission", msg, scenario=scenario))
        res.count("backtests")
    evaluate(scenario, res, "replay")


def finalize(prop: str, tier: str, merged: ShardResult) -> Dict[str, Any]:
    inc = []
    viol = []
    tables = merged.extra.get("digests", [])
    seeds = merged.extra.get("hash_seed", [])
    compared = 0
    if len(tables) < 2:
        inc.append("fewer than two interpreters reported digests")
    else:
        base = tables[0]
        for idx, t in enumerate(tables[1:], start=1):
            for k, per_pool in t.items():
                for mc, dg in per_pool.items():
                    compared += 1
                    if base.get(k, {}).get(mc) is not None and base[k][mc] != dg:
                        sc = gen(common.rng("C03", (merged.extra.get("seed") or [0])[0], "strategy", int(k)))
                        viol.append(Violation("C03", "history_depends_on_hash_seed",
                                              f"strategy {k}, max_concurrent={mc}: digest {dg} with PYTHONHASHSEED="
                                              f"{seeds[idx] if idx < len(seeds) else '?'} vs {base[k][mc]} with "
                                              f"{seeds[0] if seeds else '?'}", scenario=sc))
    c = merged.counters
    for name, n in (("fills_checked", 500), ("digest_comparisons", 200), ("backtests", 500)):
        if c.get(name, 0) < n:
            inc.append(f"'{name}' observed only {c.get(name, 0)} times (< {n})")
    return {"inconclusive": inc, "violations": viol,
            "coverage": {"cross_interpreter_digest_comparisons": compared, "hash_seeds": seeds, "pool_sizes": POOLS}}
