"""Runtime-monitoring machinery for gbeced/basana (see /verif/DESIGN.md)."""
