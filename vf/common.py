"""Common machinery: tiers, seeds, shard processes, verdicts, evidence, known findings.

Everything a check prints or writes goes through this module so that all twenty checks obey the
same interface (see DESIGN.md section 2 and 8).
"""
from __future__ import annotations

import dataclasses
import fcntl
import hashlib
import importlib
import json
import os
import pathlib
import random
import subprocess
import sys
import time
import traceback
from typing import Any, Callable, Dict, Iterable, List, Optional

ROOT = pathlib.Path(__file__).resolve().parent.parent
# The registered checks always exercise /repo's working tree. VF_REPO lets the mutant-evaluation tooling point a
# check at a scratch worktree carrying a seeded change, so several can be evaluated in parallel.
REPO = pathlib.Path(os.environ.get("VF_REPO", "/repo"))
PY = "/venv/bin/python"
DEPS = ROOT / ".deps"
WHEELS = "/opt/veriftools/wheels"

HELD, VIOLATED, INCONCLUSIVE = "held", "violated", "inconclusive"

#: property id -> (module, level category)
REGISTRY: Dict[str, str] = {
    "C01": "vf.exsim.props", "C02": "vf.exsim.props", "C04": "vf.exsim.props", "C05": "vf.exsim.props",
    "C06": "vf.exsim.props", "C07": "vf.exsim.props", "C08": "vf.exsim.props", "C09": "vf.exsim.props",
    "C10": "vf.exsim.props", "C11": "vf.exsim.props",
    "C03": "vf.dispx.c03", "C12": "vf.dispx.c12", "C13": "vf.dispx.c13", "C14": "vf.dispx.c14",
    "C15": "vf.dispx.c15",
    "C16": "vf.wire.c16", "C17": "vf.wire.c17",
    "C18": "vf.wsfault.c18",
    "C19": "vf.feeds.c19",
    "C20": "vf.bucket.c20",
}


def ensure_deps() -> None:
    """Install icontract into the git-ignored .deps directory (offline wheelhouse), once, under a lock."""
    marker = DEPS / "icontract" / "__init__.py"
    if not marker.exists():
        DEPS.mkdir(exist_ok=True)
        with open(ROOT / ".deps.lock", "w") as lock:
            fcntl.flock(lock, fcntl.LOCK_EX)
            if not marker.exists():
                subprocess.run(
                    [PY, "-m", "pip", "install", "-q", "--no-index", "--find-links", WHEELS, "--target", str(DEPS),
                     "icontract"],
                    check=True, stdout=subprocess.DEVNULL, stderr=subprocess.DEVNULL,
                    env={**os.environ, "PIP_NO_INDEX": "1", "PIP_DISABLE_PIP_VERSION_CHECK": "1"},
                )
    if str(DEPS) not in sys.path:
        sys.path.insert(0, str(DEPS))


def assert_repo_tree() -> str:
    """The checks must exercise /repo's working tree (editable install): fail loudly otherwise."""
    import basana
    path = os.path.realpath(basana.__file__)
    if not path.startswith(str(REPO) + os.sep):
        raise RuntimeError(f"basana imported from {path}, expected under {REPO}")
    return path


def digest(obj: Any, n: int = 12) -> str:
    return hashlib.sha256(json.dumps(obj, sort_keys=True, default=str).encode()).hexdigest()[:n]


def derive_seed(*parts: Any) -> int:
    return int(hashlib.sha256(repr(parts).encode()).hexdigest()[:15], 16)


def rng(*parts: Any) -> random.Random:
    return random.Random(derive_seed(*parts))


def env_seed() -> int:
    try:
        return int(os.environ.get("VERIF_SEED", "0"))
    except ValueError:
        return 0


@dataclasses.dataclass
class Violation:
    property: str
    kind: str            # name of the oracle rule that fired
    message: str
    scenario: Any = None  # fully expanded scenario (JSON) that replays it
    mechanism: str = ""   # classifier output used to match known findings ("" = unclassified)
    detail: Any = None

    def to_json(self) -> dict:
        return dataclasses.asdict(self)


class ShardResult:
    """Accumulates what one worker process observed."""

    MAX_VIOLATIONS = 12
    MAX_SAMPLES = 3

    def __init__(self) -> None:
        self.evaluations = 0
        self.nontrivial: set = set()
        self.counters: Dict[str, int] = {}
        self.sentinels: Dict[str, int] = {}
        self.violations: List[Violation] = []
        self.violation_kinds: Dict[str, int] = {}
        self.samples: List[Any] = []
        self.errors: List[str] = []
        self.extra: Dict[str, Any] = {}

    def count(self, name: str, n: int = 1) -> None:
        self.counters[name] = self.counters.get(name, 0) + n

    def sentinel(self, name: str, n: int = 1) -> None:
        self.sentinels[name] = self.sentinels.get(name, 0) + n

    def add_counters(self, prefix: str, counters: Dict[str, int]) -> None:
        for k, v in counters.items():
            self.count(prefix + k, v)

    def violate(self, v: Violation) -> None:
        key = f"{v.property}:{v.kind}:{v.mechanism}"
        self.violation_kinds[key] = self.violation_kinds.get(key, 0) + 1
        # Keep the first witnesses of every distinct kind, bounded overall.
        if self.violation_kinds[key] <= 2 and len(self.violations) < self.MAX_VIOLATIONS:
            self.violations.append(v)

    def sample(self, s: Any) -> None:
        if len(self.samples) < self.MAX_SAMPLES:
            self.samples.append(s)

    def to_json(self) -> dict:
        return {
            "evaluations": self.evaluations,
            "nontrivial": sorted(self.nontrivial),
            "counters": self.counters,
            "sentinels": self.sentinels,
            "violations": [v.to_json() for v in self.violations],
            "violation_kinds": self.violation_kinds,
            "samples": self.samples,
            "errors": self.errors[:10],
            "extra": self.extra,
        }


@dataclasses.dataclass
class Plan:
    """How a tier is split over worker processes."""
    shards: int
    cases_per_shard: int
    timeout_s: int = 900          # wall-clock watchdog per shard: firing => inconclusive
    env: Optional[Dict[str, str]] = None
    params: Optional[Dict[str, Any]] = None
    shard_env: Optional[List[Dict[str, str]]] = None   # per-shard environment (e.g. a different PYTHONHASHSEED each)


@dataclasses.dataclass
class Context:
    prop: str
    tier: str
    seed: int
    shard: int
    nshards: int
    cases: int
    params: Dict[str, Any]
    deadline: float

    def rng(self, *parts: Any) -> random.Random:
        return rng(self.prop, self.seed, *parts)

    def case_ids(self) -> Iterable[int]:
        """Global case indexes handled by this shard (interleaved so that every shard sees every class)."""
        for i in range(self.cases):
            yield i * self.nshards + self.shard

    def out_of_time(self) -> bool:
        return time.time() > self.deadline


# ---------------------------------------------------------------------------------------------
# Known findings
# ---------------------------------------------------------------------------------------------

def load_findings() -> List[dict]:
    path = ROOT / "known_findings.json"
    if not path.exists():
        return []
    return json.loads(path.read_text()).get("findings", [])


def match_open_finding(v: dict, findings: List[dict]) -> Optional[dict]:
    if not v.get("mechanism"):
        return None
    for f in findings:
        if f.get("status") == "open" and f.get("property") == v["property"] and f.get("mechanism") == v["mechanism"]:
            return f
    return None


# ---------------------------------------------------------------------------------------------
# Driver (parent process)
# ---------------------------------------------------------------------------------------------

def load_module(prop: str):
    return importlib.import_module(REGISTRY[prop])


def run_check(prop: str, tier: str, seed: int) -> int:
    t0 = time.time()
    ensure_deps()
    assert_repo_tree()
    mod = load_module(prop)
    plan: Plan = mod.plan(prop, tier)
    tmpdir = ROOT / ".work"
    tmpdir.mkdir(exist_ok=True)
    procs = []
    for shard in range(plan.shards):
        out = tmpdir / f"{prop}-{tier}-{seed}-{shard}-{os.getpid()}.json"
        if out.exists():
            out.unlink()
        env = dict(os.environ)
        env.setdefault("PYTHONHASHSEED", "0")
        env["PYTHONPATH"] = f"{ROOT}:{DEPS}" + (f":{REPO}" if str(REPO) != "/repo" else "")
        env["BASANA_VERIF"] = "1"
        if plan.env:
            env.update(plan.env)
        if plan.shard_env:
            env.update(plan.shard_env[shard % len(plan.shard_env)])
        cmd = [PY, "-X", "faulthandler", "-m", "vf.worker", "--prop", prop, "--tier", tier, "--seed", str(seed),
               "--shard", str(shard), "--nshards", str(plan.shards), "--cases", str(plan.cases_per_shard),
               "--timeout", str(plan.timeout_s), "--out", str(out)]
        if plan.params:
            cmd += ["--params", json.dumps(plan.params)]
        p = subprocess.Popen(cmd, cwd=str(ROOT), env=env, stdout=subprocess.PIPE, stderr=subprocess.STDOUT, text=True)
        procs.append((shard, p, out))

    merged = ShardResult()
    merged_violations: List[dict] = []
    kinds: Dict[str, int] = {}
    inconclusive: List[str] = []
    for shard, p, out in procs:
        try:
            stdout, _ = p.communicate(timeout=plan.timeout_s + 60)
        except subprocess.TimeoutExpired:
            p.kill()
            stdout, _ = p.communicate()
            inconclusive.append(f"shard {shard} hit the wall-clock watchdog")
        if not out.exists():
            inconclusive.append(f"shard {shard} produced no result (exit {p.returncode}): {(stdout or '')[-600:]}")
            continue
        res = json.loads(out.read_text())
        out.unlink()
        merged.evaluations += res["evaluations"]
        merged.nontrivial.update(res["nontrivial"])
        for k, v in res["counters"].items():
            merged.count(k, v)
        for k, v in res["sentinels"].items():
            merged.sentinel(k, v)
        for k, v in res["violation_kinds"].items():
            kinds[k] = kinds.get(k, 0) + v
        merged_violations.extend(res["violations"])
        for s in res["samples"]:
            merged.sample(s)
        for e in res["errors"]:
            inconclusive.append(f"shard {shard}: {e}")
        for k, v in res.get("extra", {}).items():
            merged.extra.setdefault(k, []).append(v)

    # Let the property module judge coverage (sentinels) and add cross-shard checks.
    post = getattr(mod, "finalize", None)
    coverage_extra: Dict[str, Any] = {}
    if post is not None:
        try:
            fin = post(prop, tier, merged) or {}
        except Exception:
            fin = {"inconclusive": ["finalize failed: " + traceback.format_exc()[-500:]]}
        inconclusive.extend(fin.get("inconclusive", []))
        for v in fin.get("violations", []):
            merged_violations.append(v.to_json() if isinstance(v, Violation) else v)
            k = f"{v.property}:{v.kind}:{v.mechanism}" if isinstance(v, Violation) else "x"
            kinds[k] = kinds.get(k, 0) + 1
        coverage_extra = fin.get("coverage", {})

    findings = load_findings()
    unknown: List[dict] = []
    known: Dict[str, dict] = {}
    for v in merged_violations:
        if v["property"] != prop:
            continue
        f = match_open_finding(v, findings)
        if f is not None:
            known[f["mechanism"]] = f
        else:
            unknown.append(v)

    lines: List[str] = []
    for mech, f in sorted(known.items()):
        lines.append(f"KNOWN-FINDING: property={prop} {mech}: {f.get('what', '')}")
    replay_dir = ROOT / "replays"
    replay_dir.mkdir(exist_ok=True)
    reported = set()
    for v in unknown:
        key = (v["kind"], v["mechanism"])
        if key in reported:
            continue
        reported.add(key)
        path = replay_dir / f"{prop}-{digest([v['kind'], v['scenario']])}.json"
        path.write_text(json.dumps({"property": prop, "kind": v["kind"], "mechanism": v["mechanism"],
                                    "message": v["message"], "seed": seed, "tier": tier, "detail": v.get("detail"),
                                    "scenario": v["scenario"]}, indent=1, default=str))
        lines.append(f"VIOLATION property={prop} replay={path}")
        lines.append(f"  kind={v['kind']} mechanism={v['mechanism'] or '-'} :: {v['message'][:400]}")

    wall = time.time() - t0
    level = getattr(mod, "LEVELS", {}).get(prop, "exploration")
    coverage = {
        "evaluations": merged.evaluations,
        "distinct_nontrivial": len(merged.nontrivial),
        "rule": getattr(mod, "RULES", {}).get(prop, ""),
        "samples": merged.samples,
        "monitor_counters": dict(sorted(merged.counters.items())),
        "sentinels": dict(sorted(merged.sentinels.items())),
        "violation_kinds": kinds,
        "known_findings_seen": sorted(known),
        "shards": plan.shards,
        "inconclusive_reasons": inconclusive[:10],
    }
    coverage.update(coverage_extra)
    evidence = {
        "property_id": prop, "tier": tier, "seed": seed, "level": level, "coverage": coverage,
        "assumptions": getattr(mod, "ASSUMPTIONS", {}).get(prop, []),
        "wall_s": round(wall, 2),
        "violations": len(unknown),
        "verdict": VIOLATED if unknown else (INCONCLUSIVE if inconclusive else HELD),
        "repo_tree": os.path.realpath(str(REPO)),
    }
    evdir = pathlib.Path(os.environ.get("VF_EVIDENCE_DIR", str(ROOT / "evidence")))   # overridden by mutant tooling only
    evdir.mkdir(parents=True, exist_ok=True)
    (evdir / f"{prop}.json").write_text(json.dumps(evidence, indent=1, default=str) + "\n")

    for line in lines:
        print(line)
    summary = (f"{prop} tier={tier} seed={seed} evaluations={merged.evaluations} "
               f"distinct_nontrivial={len(merged.nontrivial)} wall={wall:.1f}s")
    if unknown:
        print(f"FAILED {summary}")
        return 1
    if inconclusive:
        for r in inconclusive[:5]:
            print(f"INCONCLUSIVE property={prop} reason={r[:80]} ... {r[-400:]}" if len(r) > 500 else f"INCONCLUSIVE property={prop} reason={r}")
        print(f"INCONCLUSIVE {summary}")
        return 2
    print(f"HELD {summary}")
    return 0


def run_replay(prop: str, path: str) -> int:
    ensure_deps()
    assert_repo_tree()
    os.environ["BASANA_VERIF"] = "1"
    import logging
    logging.getLogger().addHandler(logging.NullHandler())
    mod = load_module(prop)
    data = json.loads(pathlib.Path(path).read_text())
    res = ShardResult()
    mod.replay(prop, data["scenario"], res)
    mine = [v for v in res.violations if v.property == prop]
    if mine:
        print(f"VIOLATION property={prop} replay={path}")
        for v in mine[:5]:
            print(f"  kind={v.kind} mechanism={v.mechanism or '-'} :: {v.message[:600]}")
        return 1
    print(f"replay of {path}: no violation of {prop} (monitor evaluations: {sum(res.counters.values())})")
    return 0
