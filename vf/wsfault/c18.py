"""C18 - websocket channels stay subscribed across faults and route correctly (DESIGN.md section 5, C18).

The real websocket clients (generic subclass, Binance, Bitstamp public / private) and the real realtime
dispatcher run under the virtual-time loop against the scripted in-memory peer of vf/wsfault/fake.py. The server
side records SUBSCRIBE frames, listen-key REST calls and connection instants; per-connection obligations,
routing, keep-alive cadence and back-off are checked offline on those records.
"""
from __future__ import annotations

import asyncio
import collections
import itertools
import json
from typing import Any, Dict, List, Optional

from vf import common, sentinel, vclock
from vf.common import Context, Plan, ShardResult, Violation
from vf.wsfault import fake

LEVELS = {"C18": "fault_enumeration"}
RULES = {"C18": (
    "fault script = sequence over virtual time of server behaviours (normal close, abrupt drop, error frame, receive "
    "raising, garbage frames '[]' / '42' / 'garbage{', Bitstamp bts:request_reconnect, Binance listenKeyExpired, "
    "subscription error replies, delayed replies, failing listen-key creation / keep-alive / websocket token / "
    "connect) interleaved with client actions (register a channel while connected / while disconnected, "
    "schedule_reconnection) and uniquely identified channel messages, for 4 client kinds (generic, Binance public + "
    "spot / cross / isolated user data, Bitstamp public, Bitstamp private). The thorough tier enumerates every "
    "sequence of up to 3 fault / client actions per client kind; longer ones (<= 12) are random. Non-trivial: >= 1 "
    "fault after the first successful subscription and >= 2 connections. Distinct = digest of (client kind, action "
    "sequence, number of connections, subscription pattern per connection).")}
ASSUMPTIONS = {"C18": [
    "'subscribed again' is decided as a bounded obligation: a connection that stays up at least D = 1 s + REST reply "
    "delays after it was established (or after a channel was registered / flagged on it) must have received "
    "subscription requests covering the channels concerned; connections torn down earlier carry no obligation",
    "keep-alive cadence: gaps <= period + 1 virtual second (+ REST delay) for as long as the connection that carried "
    "the key stays up and the key is not replaced (period 5 s through config_overrides)",
    "the fake peer has aiohttp's iteration semantics but is not aiohttp; Bitstamp private channel messages are sent "
    "with the registered channel name (whether the live service appends the user id cannot be checked offline and is "
    "not asserted either way)",
]}
WATCH = ["basana.core.websockets", "basana.external.binance.websockets", "basana.external.binance.websocket_mgr",
         "basana.external.bitstamp.websockets"]

KINDS = ["generic", "binance", "bitstamp_public", "bitstamp_private"]
FAULTS = {
    "generic": ["close", "drop", "error_frame", "raise", "garbage", "fail_connect", "sub_error", "delay",
                "register", "reconnect_client"],
    "binance": ["close", "drop", "raise", "garbage", "listen_key_expired", "fail_listen_key", "fail_keep_alive",
                "sub_error", "delay", "register", "reconnect_client"],
    "bitstamp_public": ["close", "drop", "error_frame", "garbage", "reconnect_request", "sub_error", "register",
                        "reconnect_client"],
    "bitstamp_private": ["close", "drop", "raise", "garbage", "reconnect_request", "fail_token", "sub_error", "delay",
                         "register"],
}
KA_PERIOD = 5.0
KA = {"user:spot": 5.0, "user:cross": 7.0, "user:isolated:BTCUSDT": 4.0}   # configured per account kind


def plan(prop: str, tier: str) -> Plan:
    if tier == "quick":
        return Plan(shards=4, cases_per_shard=60, timeout_s=600)
    return Plan(shards=16, cases_per_shard=700, timeout_s=3300)


KLINE_INTERVALS = {"kline": "1m", "klineM": "1M", "klineH": "1h"}


def sweep_space() -> List[tuple]:
    out = []
    for kind in KINDS:
        for n in (1, 2, 3):
            for seq in itertools.product(FAULTS[kind], repeat=n):
                out.append((kind, seq))
    return out


def channels_for(kind: str, r) -> List[str]:
    if kind == "generic":
        return [f"ch{i}" for i in range(r.choice([0, 1, 1, 2, 3]))]     # possibly nothing to subscribe at first
    if kind == "binance":
        pool = ["trade:BTCUSDT", "trade:ETHUSDT", "user:spot", "user:cross", "user:isolated:BTCUSDT", "book:BTCUSDT",
                "kline:ETHUSDT", "klineM:ETHUSDT", "klineH:BTCUSDT"]
        return r.sample(pool, r.randint(1, 4)) if r.random() < 0.8 else ["user:spot"]
    if kind == "bitstamp_public":
        return r.sample(["live_trades_btcusd", "live_trades_ethusd", "order_book_btcusd", "live_orders_btcusd"], r.randint(1, 3))
    return r.sample(["private-my_orders_btcusd", "private-my_trades_btcusd", "private-my_trades_ethusd"], r.randint(1, 3))


def extra_channel(kind: str, k: int) -> str:
    return {"generic": f"late{k}", "binance": ["trade:LTCUSDT", "trade:XRPUSDT", "trade:BNBUSDT"][k % 3],
            "bitstamp_public": ["live_trades_ltcusd", "live_trades_xrpusd", "order_book_ethusd"][k % 3],
            "bitstamp_private": ["private-my_trades_ltcusd", "private-my_orders_ethusd", "private-my_orders_ltcusd"][k % 3]}[kind]


def build_scenario(r, kind: str, seq: List[str]) -> Dict[str, Any]:
    t = 1.5
    steps: List[Dict[str, Any]] = []
    late = 0
    for a in seq:
        # messages before every fault so that routing is exercised on every connection
        if r.random() < 0.7:
            steps.append({"at": round(t, 3), "do": "msg", "pick": r.randrange(100)})
            t += 0.6
        st = {"at": round(t, 3), "do": a}
        if a == "garbage":
            st["text"] = r.choice(["garbage{", "[]", "42", "\"str\"", "{\"unknown\": 1}"])
        if a in ("fail_listen_key", "fail_keep_alive", "fail_connect", "fail_token"):
            st["n"] = r.choice([1, 1, 2])
        if a == "delay":
            st["secs"] = r.choice([0.3, 1.0])
        if a == "register":
            st["channel"] = extra_channel(kind, late)
            late += 1
        if a in ("close", "reconnect_request") and r.random() < 0.25:
            st["at_handshake"] = True      # the *next* connection finds the frame waiting right after the handshake
        if a == "listen_key_expired":
            st["pick"] = r.randrange(10)
            st["together"] = r.random() < 0.4     # every user-data stream of the connection expires in the same instant
        steps.append(st)
        t += r.choice([0.2, 1.5, 3.0, 6.5])
        if kind == "bitstamp_private" and r.random() < 0.2:
            t += 65.0        # longer than the life of a websocket token
    for _ in range(r.randint(1, 3)):
        t += 1.2
        steps.append({"at": round(t, 3), "do": "msg", "pick": r.randrange(100)})
    horizon = t + 2 * max(KA.values()) + 4
    return {"kind": kind, "channels": channels_for(kind, r), "steps": steps, "horizon": round(horizon, 3),
            "backoff": r.choice([1, 1, 2, 0.5]) if kind == "generic" else 1, "faults": list(seq)}


def gen(r) -> Dict[str, Any]:
    kind = r.choice(KINDS)
    seq = [r.choice(FAULTS[kind]) for _ in range(r.choice([1, 2, 3, 4, 6, 8, 12]))]
    return build_scenario(r, kind, seq)


# ---------------------------------------------------------------------------------------------
# client adapters
# ---------------------------------------------------------------------------------------------

class Adapter:
    def __init__(self, run: "Run"):
        self.run = run
        self.late_sources: Dict[str, Any] = {}

    def sink(self, chan: str):
        async def handler(ev):
            self.run.delivered.append((self.run.peer.now(), chan, self.uid_of(ev)))
        return handler

    # to be provided: build(), register_late(chan), frame_channels(ws, msg), make_msg(chan, uid), uid_of(ev), ws_client


class GenericAdapter(Adapter):
    def build(self, d, session, sc):
        from basana.core import websockets as core_ws
        adapter = self

        class Src(core_ws.ChannelEventSource):
            def __init__(self, producer, chan):
                super().__init__(producer)
                self.chan = chan

            async def push_from_message(self, message: dict):
                from basana.core import event
                import basana.core.dt as bdt
                e = event.Event(bdt.utc_now())
                e.uid = message["uid"]
                self.push(e)

        class Client(core_ws.WebSocketClient):
            async def subscribe_to_channels(self, channels, ws_cli):
                await ws_cli.send_str(json.dumps({"op": "subscribe", "channels": channels}))

            async def handle_message(self, message: dict) -> bool:
                if not isinstance(message, dict):
                    return False
                if (ch := message.get("channel")) and (src := self.get_channel_event_source(ch)):
                    await src.push_from_message(message)
                    return True
                return "ack" in message

            async def on_error(self, error):
                adapter.run.client_errors.append((adapter.run.peer.now(), repr(error)[:120]))

        self.Src = Src
        self.cli = Client("ws://x/", session=session)
        self.cli.backoff_secs = sc["backoff"]
        for ch in sc["channels"]:
            src = Src(self.cli, ch)
            self.cli.set_channel_event_source(ch, src)
            d.subscribe(src, self.sink(ch))
        if not sc["channels"]:
            # the application knows its websocket producer before it registers any channel on it
            from basana.core import event as _event
            keep = _event.FifoQueueEventSource(producer=self.cli)
            d.subscribe(keep, self.sink("-"))
        self.ws_clients = [self.cli]

    def register_late(self, chan: str):
        src = self.Src(self.cli, chan)
        self.cli.set_channel_event_source(chan, src)
        self.late_sources[chan] = src

    def frame_channels(self, ws, msg) -> List[str]:
        return list(msg.get("channels", [])) if msg.get("op") == "subscribe" else []

    def reply(self, ws, msg):
        return {"ack": True}

    def make_msg(self, chan: str, uid: int, ws) -> Any:
        return {"channel": chan, "uid": uid}

    def uid_of(self, ev):
        return getattr(ev, "uid", None)


class BinanceAdapter(Adapter):
    def build(self, d, session, sc):
        from basana.core.pair import Pair
        from basana.external.binance import exchange as bex
        adapter = self
        ov = {"api": {"http": {"base_url": "http://x/"},
                      "websockets": {"base_url": "ws://x/",
                                     "spot": {"user_data_stream": {"heartbeat": KA["user:spot"]}},
                                     "cross_margin": {"user_data_stream": {"heartbeat": KA["user:cross"]}},
                                     "isolated_margin": {"user_data_stream": {"heartbeat": KA["user:isolated:BTCUSDT"]}}}}}
        self.ex = bex.Exchange(d, "k", "s", session=session, config_overrides=ov)
        self.stream_of: Dict[str, str] = {}
        for ch in sc["channels"]:
            self._subscribe(ch)
        self.cli = self.ex._ws_mgr._get_ws_client()

        async def on_error(error):
            adapter.run.client_errors.append((adapter.run.peer.now(), repr(error)[:120]))
        self.cli.on_error = on_error
        self.ws_clients = [self.cli]

    def _subscribe(self, ch: str):
        from basana.core.pair import Pair
        parts = ch.split(":")
        if parts[0] == "trade":
            p = Pair(parts[1][:-4], "USDT")
            self.ex.subscribe_to_trade_events(p, self.sink(ch))
            self.stream_of[ch] = parts[1].lower() + "@trade"
        elif parts[0] in KLINE_INTERVALS:
            # stream names are case sensitive where it matters: 1m is a minute, 1M a month
            p = Pair(parts[1][:-4], "USDT")
            iv = KLINE_INTERVALS[parts[0]]
            self.ex.subscribe_to_bar_events(p, iv, self.sink(ch))
            self.stream_of[ch] = parts[1].lower() + "@kline_" + iv
        elif parts[0] == "book":
            p = Pair(parts[1][:-4], "USDT")
            self.ex.subscribe_to_order_book_events(p, self.sink(ch))
            self.stream_of[ch] = parts[1].lower() + "@depth10"
        elif ch == "user:spot":
            self.ex.spot_account.subscribe_to_user_data_events(self.sink(ch))
        elif ch == "user:cross":
            self.ex.cross_margin_account.subscribe_to_user_data_events(self.sink(ch))
        else:
            self.ex.isolated_margin_account.subscribe_to_user_data_events(Pair("BTC", "USDT"), self.sink(ch))

    def register_late(self, chan: str):
        from basana.core.pair import Pair
        from basana.external.binance import websockets as bws, trades
        sym = chan.split(":")[1]
        p = Pair(sym[:-4], "USDT")
        src = trades.WebSocketEventSource(p, self.cli)
        self.cli.set_channel_event_source_ex(bws.PublicChannel(trades.get_channel(p)), src)
        self.stream_of[chan] = sym.lower() + "@trade"
        self.late_sources[chan] = src

    def chan_of_stream(self, stream: str) -> Optional[str]:
        for ch, s in self.stream_of.items():
            if s == stream:
                return ch
        for lk in self.run.peer.listen_keys:
            if lk["key"] == stream:
                if lk["path"].endswith("/api/v3/userDataStream"):
                    return "user:spot"
                if lk["path"].endswith("isolated"):
                    return "user:isolated:BTCUSDT"
                return "user:cross"
        return None

    def frame_channels(self, ws, msg) -> List[str]:
        if msg.get("method") != "SUBSCRIBE":
            return []
        out = []
        for stream in msg.get("params", []):
            ch = self.chan_of_stream(stream)
            out.append(ch if ch is not None else "unknown:" + stream)
            if ch is not None and ch.startswith("user:"):
                self.run.key_subscriptions.append((self.run.peer.now(), ws.cid, ch, stream))
        return out

    def reply(self, ws, msg):
        if ws.sub_error:
            ws.sub_error = False
            return {"result": {"code": 2, "msg": "Invalid request"}, "id": msg.get("id")}
        return {"result": None, "id": msg.get("id")}

    def current_key(self, ws, chan: str) -> Optional[str]:
        keys = [k for (t, cid, ch, k) in self.run.key_subscriptions if cid == ws.cid and ch == chan]
        return keys[-1] if keys else None

    def make_msg(self, chan: str, uid: int, ws) -> Any:
        if chan.startswith("trade:"):
            return {"stream": self.stream_of[chan], "data": {"e": "trade", "E": 1700000000000, "s": chan[6:], "t": uid,
                                                              "p": "1", "q": "1", "b": 1, "a": 2, "T": 1700000000000}}
        if chan.split(":")[0] in KLINE_INTERVALS:
            # the message id travels in the volume field of the closed kline
            sym = chan.split(":")[1]
            return {"stream": self.stream_of[chan], "data": {"e": "kline", "E": 1700000000000, "s": sym, "k": {
                "t": 1700000000000, "T": 1700000059999, "s": sym, "i": KLINE_INTERVALS[chan.split(":")[0]], "o": "1",
                "c": "1", "h": "1", "l": "1", "v": str(uid), "x": True}}}
        if chan.startswith("book:"):
            return {"stream": self.stream_of[chan], "data": {"lastUpdateId": uid, "bids": [["1", "1"]], "asks": [["2", "1"]]}}
        key = self.current_key(ws, chan)
        if key is None:
            return None
        return {"stream": key, "data": {"e": "outboundAccountPosition", "E": 1700000000000, "uid": uid}}

    def uid_of(self, ev):
        if hasattr(ev, "trade"):
            return int(ev.trade.id)
        if hasattr(ev, "order_book"):
            return ev.order_book.json.get("lastUpdateId")
        if hasattr(ev, "bar"):
            return int(ev.bar.volume)
        return getattr(ev, "json", {}).get("uid")


class BitstampAdapter(Adapter):
    def __init__(self, run, private: bool):
        super().__init__(run)
        self.private = private

    def build(self, d, session, sc):
        from basana.external.bitstamp import exchange as bsx
        adapter = self
        ov = {"api": {"http": {"base_url": "http://x/"}, "websockets": {"base_url": "ws://x/"}}}
        self.ex = bsx.Exchange(d, "k", "s", session=session, config_overrides=ov)
        for ch in sc["channels"]:
            self._subscribe(ch)
        self.cli = self.ex._get_priv_ws_client() if self.private else self.ex._get_pub_ws_client()

        async def on_error(error):
            adapter.run.client_errors.append((adapter.run.peer.now(), repr(error)[:120]))
        self.cli.on_error = on_error
        self.ws_clients = [self.cli]

    def _pair(self, ch: str):
        from basana.core.pair import Pair
        cp = ch.rsplit("_", 1)[1]
        return Pair(cp[:3].upper(), cp[3:].upper())

    def _subscribe(self, ch: str):
        p = self._pair(ch)
        if ch.startswith("live_trades"):
            self.ex.subscribe_to_public_trade_events(p, self.sink(ch))
        elif ch.startswith("order_book"):
            self.ex.subscribe_to_order_book_events(p, self.sink(ch))
        elif ch.startswith("live_orders"):
            self.ex.subscribe_to_public_order_events(p, self.sink(ch))
        elif ch.startswith("private-my_orders"):
            self.ex.subscribe_to_private_order_events(p, self.sink(ch))
        else:
            self.ex.subscribe_to_private_trade_events(p, self.sink(ch))

    def register_late(self, chan: str):
        from basana.external.bitstamp import trades, orders, order_book
        p = self._pair(chan)
        if "trades" in chan:
            src = trades.WebSocketEventSource(p, self.cli)
        elif "orders" in chan:
            src = orders.WebSocketEventSource(p, self.cli)
        else:
            src = order_book.WebSocketEventSource(p, self.cli)
        self.cli.set_channel_event_source(chan, src)
        self.late_sources[chan] = src

    def frame_channels(self, ws, msg) -> List[str]:
        if msg.get("event") != "bts:subscribe":
            return []
        ch = msg.get("data", {}).get("channel", "")
        if self.private:
            tok = msg.get("data", {}).get("auth")
            issued = self.run.peer.tokens.get(tok)
            if not tok or issued is None or self.run.peer.now() - issued > 60.0:
                # no token, a token the server never issued, or one that has expired meanwhile
                return ["unauthenticated:" + ch]
            if ch.endswith("-77"):
                ch = ch[: -3]
        return [ch]

    def reply(self, ws, msg):
        ch = msg.get("data", {}).get("channel", "")
        if ws.sub_error:
            ws.sub_error = False
            return {"event": "bts:subscription_failed", "channel": ch, "data": {}}
        return {"event": "bts:subscription_succeeded", "channel": ch, "data": {}}

    def make_msg(self, chan: str, uid: int, ws) -> Any:
        if "trades" in chan:
            return {"event": "trade", "channel": chan, "data": {"id": uid, "microtimestamp": "1700000000000000",
                                                                "amount_str": "1", "price_str": "1", "type": 0,
                                                                "buy_order_id": 1, "sell_order_id": 2}}
        if "orders" in chan:
            return {"event": "order_created", "channel": chan, "data": {"id": uid, "microtimestamp": "1700000000000000",
                                                                        "amount_str": "1", "price_str": "1",
                                                                        "amount_at_create": "1", "order_type": 0}}
        return {"event": "data", "channel": chan, "data": {"uid": uid, "microtimestamp": "1700000000000000",
                                                           "bids": [], "asks": []}}

    def uid_of(self, ev):
        if hasattr(ev, "trade"):
            return int(ev.trade.id)
        if hasattr(ev, "order"):
            return int(ev.order.id)
        return ev.order_book.json.get("uid")


# ---------------------------------------------------------------------------------------------

class Run:
    def __init__(self, sc: Dict[str, Any]):
        self.sc = sc
        self.delivered: List[tuple] = []          # (t, chan, uid)
        self.expired_together = 0
        self.handshake_faults = 0
        self.sent: List[Dict[str, Any]] = []       # {uid, chan, t, cid}
        self.client_errors: List[tuple] = []
        self.key_subscriptions: List[tuple] = []   # (t, cid, chan, key)  [binance]
        self.subs: Dict[int, List[tuple]] = collections.defaultdict(list)   # cid -> [(t, chan)]
        self.registered: List[tuple] = []          # (t, chan)
        self.flagged: List[tuple] = []             # (t, cid, chan)  listen key expired sent
        self.action_log: List[tuple] = []
        self.skipped_msgs = 0
        self.outcome = None
        self.max_rest_delay = 0.0

    def execute(self):
        from basana.core import dispatcher
        sc = self.sc
        with vclock.virtual_time() as loop:
            self.peer = fake.Peer(loop, loop.time())
            session = fake.FakeSession(self.peer)
            d = dispatcher.realtime_dispatcher()
            kind = sc["kind"]
            ad = {"generic": GenericAdapter(self), "binance": BinanceAdapter(self),
                  "bitstamp_public": BitstampAdapter(self, False), "bitstamp_private": BitstampAdapter(self, True)}[kind]
            self.ad = ad
            ad.build(d, session, sc)
            for ch in sc["channels"]:
                self.registered.append((0.0, ch))

            def on_frame(ws, msg):
                chans = ad.frame_channels(ws, msg)
                for ch in chans:
                    self.subs[ws.cid].append((self.peer.now(), ch))
                rep = ad.reply(ws, msg)
                if rep is not None:
                    self.peer.later(ws.reply_delay, lambda: (not ws.closed) and ws.push_json(rep))
            self.peer.on_frame = on_frame
            uid = itertools.count(1)

            def live_conn():
                return next((c for c in reversed(self.peer.conns) if not c.closed), None)

            async def script():
                for st in sc["steps"]:
                    delay = st["at"] - self.peer.now()
                    if delay > 0:
                        await asyncio.sleep(delay)
                    a = st["do"]
                    ws = live_conn()
                    self.action_log.append((self.peer.now(), a, ws.cid if ws else None))
                    if a == "msg":
                        if ws is None:
                            self.skipped_msgs += 1
                            continue
                        subscribed = sorted({ch for (t, ch) in self.subs[ws.cid] if not ch.startswith(("unknown:", "unauthenticated:"))})
                        if not subscribed:
                            self.skipped_msgs += 1
                            continue
                        ch = subscribed[st["pick"] % len(subscribed)]
                        u = next(uid)
                        m = ad.make_msg(ch, u, ws)
                        if m is None:
                            self.skipped_msgs += 1
                            continue
                        self.sent.append({"uid": u, "chan": ch, "t": self.peer.now(), "cid": ws.cid})
                        ws.push_json(m)
                    elif a in ("close", "reconnect_request") and st.get("at_handshake"):
                        self.peer.at_handshake.append(a)
                        self.handshake_faults += 1
                        if ws:
                            ws.server_close()
                    elif a == "close" and ws:
                        ws.server_close()
                    elif a == "drop" and ws:
                        ws.server_drop()
                    elif a == "error_frame" and ws:
                        ws.server_error_frame()
                    elif a == "raise" and ws:
                        ws.server_raise()
                    elif a == "garbage" and ws:
                        ws.push_json(st["text"])
                    elif a == "reconnect_request" and ws:
                        ws.push_json({"event": "bts:request_reconnect", "channel": "", "data": ""})
                    elif a == "listen_key_expired" and ws:
                        users = sorted({ch for (t, cid, ch, k) in self.key_subscriptions if cid == ws.cid})
                        if users:
                            picked = users if st.get("together") else [users[st["pick"] % len(users)]]
                            for ch in picked:
                                key = ad.current_key(ws, ch)
                                self.flagged.append((self.peer.now(), ws.cid, ch, key))
                                ws.push_json({"stream": key, "data": {"e": "listenKeyExpired", "E": 1700000000000}})
                            if len(picked) > 1:
                                self.expired_together += 1
                    elif a == "fail_listen_key":
                        self.peer.fail_listen_key += st["n"]
                    elif a == "fail_keep_alive":
                        self.peer.fail_keep_alive += st["n"]
                    elif a == "fail_connect":
                        self.peer.fail_connect += st["n"]
                    elif a == "fail_token":
                        self.peer.fail_token += st["n"]
                    elif a == "sub_error":
                        if ws:
                            ws.sub_error = True
                        self.peer.next_sub_error = True
                    elif a == "delay":
                        self.peer.rest_delay = st["secs"]
                        self.peer.next_reply_delay = st["secs"]
                        self.max_rest_delay = max(self.max_rest_delay, st["secs"])
                    elif a == "register":
                        if all(ch != st["channel"] for (_t, ch) in self.registered):
                            ad.register_late(st["channel"])
                            self.registered.append((self.peer.now(), st["channel"]))
                    elif a == "reconnect_client":
                        ad.ws_clients[0].schedule_reconnection()
                rest = sc["horizon"] - self.peer.now()
                if rest > 0:
                    await asyncio.sleep(rest)

            async def poller():
                # channels registered at run time are unknown to the dispatcher: pop their sources directly
                while True:
                    await asyncio.sleep(0.05)
                    for ch, src in list(ad.late_sources.items()):
                        while (ev := src.pop()) is not None:
                            self.delivered.append((self.peer.now(), ch, ad.uid_of(ev)))

            async def main():
                task = asyncio.ensure_future(d.run(stop_signals=[]))
                pol = asyncio.ensure_future(poller())
                try:
                    await script()
                finally:
                    self.t_end = self.peer.now()
                    d.stop()
                    pol.cancel()
                    try:
                        await task
                        self.outcome = "returned"
                    except BaseException as ex:  # noqa
                        self.outcome = f"raised {type(ex).__name__}: {ex}"
                    await asyncio.gather(pol, return_exceptions=True)

            loop.run_until_complete(main())
        return self

    # -------------------------------------------------------------------------------
    def check(self) -> List[tuple]:
        sc = self.sc
        out: List[tuple] = []
        peer = self.peer
        T = self.t_end
        D = 1.0 + 2 * self.max_rest_delay
        if self.outcome != "returned":
            out.append(("run_did_not_return", str(self.outcome)))
        # O4 back-off
        at = peer.connect_attempts
        for a, b in zip(at, at[1:]):
            if b - a < sc["backoff"] - 1e-6:
                out.append(("backoff_not_respected", f"connection attempts at {a:.3f} and {b:.3f}, back-off {sc['backoff']}"))
                break
        # O5 bounded progress: while the producer runs, the end of a connection (or a failed attempt) is followed by
        # another attempt within the back-off plus a margin
        margin = sc["backoff"] + 3.0 + 2 * self.max_rest_delay
        for i, t_att in enumerate(at):
            cid = peer.attempt_conn[i] if i < len(peer.attempt_conn) else None
            t_end = t_att if cid is None else peer.conns[cid].closed_at
            if t_end is None or t_end + margin >= T - 1.0:
                continue
            if i + 1 >= len(at) or at[i + 1] > t_end + margin + 1e-9:
                out.append(("no_reconnection_attempt",
                            f"{'connection ' + str(cid) + ' ended' if cid is not None else 'a connection attempt failed'} at "
                            f"{t_end:.3f} and no new attempt followed within {margin:.1f}s (attempts: "
                            f"{[round(x, 3) for x in at][-6:]}; caller's session closed at {peer.session_closed_at})"))
                break
        if peer.session_closed_at is not None and peer.session_closed_at < T - 1.0:
            out.append(("callers_session_closed", f"the session the caller supplied was closed at {peer.session_closed_at:.3f} "
                                                  f"while the producer was running"))
        # O1 per-connection subscription obligations
        for c in peer.conns:
            end = c.closed_at if c.closed_at is not None else T
            subs = self.subs.get(c.cid, [])
            for (t_r, ch) in self.registered:
                start = max(t_r, c.opened_at)
                if start > end or start + D > end + 1e-9 or start + D > T:
                    continue
                ok = any(s_ch == ch and s_t <= start + D + 1e-6 for (s_t, s_ch) in subs) if t_r > c.opened_at else \
                    any(s_ch == ch and s_t <= start + D + 1e-6 for (s_t, s_ch) in subs)
                if not ok:
                    what = "registered while connected" if t_r > c.opened_at else "registered before the connection"
                    out.append(("channel_not_subscribed",
                                f"channel {ch} ({what} at {t_r:.3f}) was not subscribed on connection {c.cid} "
                                f"(up {c.opened_at:.3f}..{end:.3f}, closed by {c.close_cause or 'nobody'}) within {D:.1f}s; "
                                f"frames: {subs[:6]}"))
            for s_t, s_ch in subs:
                if s_ch.startswith(("unknown:", "unauthenticated:")):
                    out.append(("bad_subscription_frame", f"connection {c.cid}: {s_ch}"))
        # re-subscription of flagged channels on the live connection
        for (t_e, cid, ch, old_key) in self.flagged:
            c = peer.conns[cid]
            end = c.closed_at if c.closed_at is not None else T
            if t_e + D > end + 1e-9 or t_e + D > T:
                continue
            again = [(t, k) for (t, c2, ch2, k) in self.key_subscriptions if c2 == cid and ch2 == ch and t > t_e - 1e-9]
            if not any(t <= t_e + D + 1e-6 and k != old_key for (t, k) in again):
                out.append(("flagged_channel_not_resubscribed",
                            f"listen key {old_key} of {ch} expired at {t_e:.3f}; connection {cid} stayed up until {end:.3f} "
                            f"but no SUBSCRIBE with a fresh key followed within {D:.1f}s (later SUBSCRIBEs: {again[:3]})"),)
        # O2 routing
        got = collections.Counter((ch, u) for (t, ch, u) in self.delivered)
        by_uid = collections.defaultdict(list)
        for (t, ch, u) in self.delivered:
            by_uid[u].append(ch)
        for m in self.sent:
            chans = by_uid.get(m["uid"], [])
            wrong = [ch for ch in chans if ch != m["chan"]]
            if wrong:
                out.append(("message_routed_to_wrong_channel", f"message {m['uid']} for {m['chan']} delivered to {wrong}"))
            if len(chans) > 1:
                out.append(("message_delivered_twice", f"message {m['uid']} for {m['chan']} delivered {len(chans)} times"))
            c = peer.conns[m["cid"]]
            end = c.closed_at if c.closed_at is not None else T + 10
            disturbed = any(m["t"] - 1e-9 <= t <= m["t"] + 0.5 and a not in ("msg", "register", "fail_keep_alive", "delay")
                            for (t, a, cid) in self.action_log)
            if not chans and end > m["t"] + 0.5 and not disturbed and m["t"] + 0.5 < T:
                out.append(("message_lost", f"message {m['uid']} sent on {m['chan']} at {m['t']:.3f} (connection {m['cid']} "
                                            f"up until {end:.3f}) produced no event"))
            # the client itself tore the connection down right after the message instead of delivering it, and nothing
            # the server did since that connection was opened explains a client-side close
            persistent = {"fail_listen_key", "sub_error", "delay", "fail_token", "fail_connect"}
            closing = {"reconnect_request", "reconnect_client", "garbage", "close", "drop", "error_frame", "raise"}
            if not chans and end <= m["t"] + 0.5 and c.close_cause == "client_close" and m["t"] + 0.5 < T \
                    and not (persistent & set(sc["faults"])) \
                    and not any(a in closing and c.opened_at - 1e-9 <= t <= end + 1e-9 for (t, a, cid) in self.action_log):
                out.append(("message_lost", f"message {m['uid']} sent on {m['chan']} at {m['t']:.3f} produced no event: the "
                                            f"client closed healthy connection {m['cid']} at {end:.3f} instead "
                                            f"(actions on it: {[a for (t, a, cid) in self.action_log if cid == m['cid'] and a != 'msg']})"))
        for u, chans in by_uid.items():
            if u is not None and not any(m["uid"] == u for m in self.sent):
                out.append(("unknown_event", f"event with id {u} on {chans} was never sent"))
        # O3 keep-alive cadence per listen key
        if sc["kind"] == "binance":
            for i, (t_s, cid, ch, key) in enumerate(self.key_subscriptions):
                bound = KA.get(ch, KA_PERIOD) + 1.0 + self.max_rest_delay
                c = peer.conns[cid]
                end = c.closed_at if c.closed_at is not None else T
                later = [t for (t, c2, ch2, k2) in self.key_subscriptions[i + 1:] if ch2 == ch]
                if later:
                    end = min(end, later[0])
                end = min(end, T)
                kas = sorted(t for (t, k, ok, path, sym) in peer.keep_alives if k == key and t >= t_s - 1e-9)
                prev = t_s
                for t in kas + [None]:
                    nxt = t if t is not None else end
                    if nxt > end:
                        nxt = end
                    if nxt - prev > bound + 1e-6:
                        out.append(("keep_alive_gap", f"listen key {key} of {ch} subscribed at {t_s:.3f} on connection {cid} "
                                                      f"(alive until {end:.3f}): no keep-alive between {prev:.3f} and {nxt:.3f} "
                                                      f"(> {bound:.1f}s); keep-alives at {kas[:6]}"))
                        break
                    if t is None or t >= end:
                        break
                    prev = t
            for (t, k, ok, path, sym) in peer.keep_alives:
                if not any(lk["key"] == k for lk in peer.listen_keys):
                    out.append(("keep_alive_unknown_key", f"keep-alive for unknown key {k!r}"))
        return out


def classify(kind: str, msg: str) -> str:
    if kind == "flagged_channel_not_resubscribed":
        return "resubscription_flag_without_wakeup"
    return ""


def evaluate(sc: Dict[str, Any], res: ShardResult) -> Run:
    run = Run(sc)
    try:
        run.execute()
    except vclock.Livelock as ex:
        res.count("livelock_aborted")
        res.errors.append(f"livelock: {ex}") if res.counters.get("livelock_aborted", 0) > 5 else None
        res.evaluations += 1
        return run
    res.evaluations += 1
    res.count("connections", len(run.peer.conns))
    res.count("connect_attempts", len(run.peer.connect_attempts))
    res.count("subscribe_frames", sum(len(v) for v in run.subs.values()))
    res.count("messages_sent", len(run.sent))
    res.count("messages_delivered", len(run.delivered))
    res.count("listen_keys_expired_together", run.expired_together)
    res.count("frames_waiting_at_handshake", run.handshake_faults)
    res.count("keep_alives", len(run.peer.keep_alives))
    res.count("listen_keys", len(run.peer.listen_keys))
    res.count("flagged_resubscriptions", len(run.flagged))
    res.count("late_registrations", len(run.registered) - len(sc["channels"]))
    res.count("client_errors_reported", len(run.client_errors))
    res.count("kind_" + sc["kind"])
    for item in run.check():
        kind, msg = item[0], item[1]
        res.violate(Violation("C18", kind, f"{sc['kind']} faults={sc['faults']}: {msg}", scenario=sc,
                              mechanism=classify(kind, msg)))
    first_sub = min([t for v in run.subs.values() for (t, ch) in v], default=None)
    fault_after = first_sub is not None and any(t > first_sub and a not in ("msg",) for (t, a, cid) in run.action_log)
    if fault_after and len(run.peer.conns) >= 2:
        pat = [(c.cid, c.close_cause, len(run.subs.get(c.cid, []))) for c in run.peer.conns]
        res.nontrivial.add(common.digest([sc["kind"], sc["faults"], pat]))
    res.sample({"kind": sc["kind"], "channels": sc["channels"], "faults": sc["faults"],
                "connections": [(c.cid, c.opened_at, c.closed_at, c.close_cause) for c in run.peer.conns][:6],
                "subscribe_frames": {str(k): v[:4] for k, v in list(run.subs.items())[:3]},
                "keep_alives": [(t, k) for (t, k, ok, p, s_) in run.peer.keep_alives][:5],
                "sent": len(run.sent), "delivered": len(run.delivered)})
    return run


def run_shard(ctx: Context, res: ShardResult) -> None:
    sen = sentinel.Sentinel(WATCH, lines=False)
    sen.start()
    try:
        for i in ctx.case_ids():
            if ctx.out_of_time():
                res.errors.append("ran out of time")
                break
            evaluate(gen(ctx.rng("c18", i)), res)
        space = sweep_space()
        step = 1 if ctx.tier == "thorough" else 9
        for k in range(ctx.shard, len(space), ctx.nshards):
            if ctx.tier != "thorough" and (k // ctx.nshards) % step != ctx.seed % step:
                continue
            if ctx.out_of_time():
                res.errors.append("ran out of time during the sweep")
                break
            kind, seq = space[k]
            evaluate(build_scenario(ctx.rng("c18sweep", k), kind, list(seq)), res)
            res.count("sweep_sequences")
    finally:
        sen.stop()
    for name, n in sen.calls.items():
        res.sentinel("call:" + name, n)


def replay(prop: str, scenario: Dict[str, Any], res: ShardResult) -> None:
    evaluate(scenario, res)


def finalize(prop: str, tier: str, merged: ShardResult) -> Dict[str, Any]:
    inc = []
    c = merged.counters
    for k, n in (("connections", 200), ("subscribe_frames", 300), ("messages_delivered", 100), ("keep_alives", 50),
                 ("flagged_resubscriptions", 5), ("late_registrations", 20)):
        if c.get(k, 0) < n:
            inc.append(f"'{k}' observed only {c.get(k, 0)} times (< {n})")
    cov = {"sweep_space": len(sweep_space())}
    if tier == "thorough":
        cov["exhaustive"] = c.get("sweep_sequences", 0) >= len(sweep_space())
    return {"inconclusive": inc, "coverage": cov}
