"""In-memory scripted websocket / REST peer (DESIGN.md section 5, C18).

A fake ``aiohttp.ClientSession``: ``ws_connect()`` yields a fake socket that delivers real
``aiohttp.WSMessage`` objects with aiohttp's iteration semantics (iteration ends on CLOSE / CLOSING / CLOSED,
exceptions propagate, ``send_str`` on a closed socket raises); the REST verbs answer listen-key / keep-alive /
websocket-token requests. Everything is stamped with the virtual clock and recorded on the server side.
"""
from __future__ import annotations

import asyncio
import json
from typing import Any, Dict, List, Optional

import aiohttp


class FakeWS:
    def __init__(self, peer: "Peer", cid: int):
        self.peer = peer
        self.cid = cid
        self._closed = False
        self.inbox: asyncio.Queue = asyncio.Queue()
        self.opened_at = peer.now()
        self.closed_at: Optional[float] = None
        self.close_cause = ""
        self.frames: List[tuple] = []       # (t, parsed client frame)
        self.reply_delay = 0.0
        self.sub_error = False

    # ---- client side (aiohttp.ClientWebSocketResponse surface used by basana) -----------------
    @property
    def closed(self) -> bool:
        return self._closed

    async def send_str(self, data: str):
        if self._closed:
            raise ConnectionResetError("Cannot write to closing transport")
        msg = json.loads(data)
        self.frames.append((self.peer.now(), msg))
        self.peer.on_client_frame(self, msg)

    async def close(self, *a, **kw):
        if not self._closed:
            self._mark_closed("client_close")
            self.inbox.put_nowait(aiohttp.WSMessage(aiohttp.WSMsgType.CLOSED, None, None))
        return True

    def __aiter__(self):
        return self

    async def __anext__(self):
        if self._closed and self.inbox.empty():
            raise StopAsyncIteration
        m = await self.inbox.get()
        if isinstance(m, BaseException):
            self._mark_closed("receive_raised")
            raise m
        if m.type in (aiohttp.WSMsgType.CLOSE, aiohttp.WSMsgType.CLOSING, aiohttp.WSMsgType.CLOSED):
            self._mark_closed(self.close_cause or "server_close")
            raise StopAsyncIteration
        return m

    def _mark_closed(self, cause: str):
        if not self._closed:
            self._closed = True
            self.closed_at = self.peer.now()
            self.close_cause = self.close_cause or cause

    # ---- server side --------------------------------------------------------------------------
    def push_json(self, obj: Any):
        self.inbox.put_nowait(aiohttp.WSMessage(aiohttp.WSMsgType.TEXT, obj if isinstance(obj, str) else json.dumps(obj), None))

    def server_close(self):
        self.close_cause = "server_close"
        self.inbox.put_nowait(aiohttp.WSMessage(aiohttp.WSMsgType.CLOSE, 1000, ""))

    def server_drop(self):
        self.close_cause = "server_drop"
        self.inbox.put_nowait(aiohttp.WSMessage(aiohttp.WSMsgType.CLOSED, None, None))

    def server_error_frame(self):
        self.close_cause = "server_error"
        self.inbox.put_nowait(aiohttp.WSMessage(aiohttp.WSMsgType.ERROR, RuntimeError("protocol error"), None))
        self.inbox.put_nowait(aiohttp.WSMessage(aiohttp.WSMsgType.CLOSED, None, None))

    def server_raise(self):
        self.close_cause = "receive_raised"
        self.inbox.put_nowait(ConnectionResetError("connection reset by peer"))


class _WSContext:
    def __init__(self, peer: "Peer"):
        self.peer = peer
        self.ws: Optional[FakeWS] = None

    async def __aenter__(self):
        self.ws = await self.peer.accept()
        return self.ws

    async def __aexit__(self, *a):
        if self.ws is not None:
            await self.ws.close()
        return False


class _Resp:
    def __init__(self, status: int, payload: Any):
        self.status = status
        self.ok = status < 400
        self.reason = "OK" if self.ok else "Server Error"
        self.headers = {"Content-Type": "application/json"}
        self._p = payload

    async def json(self):
        return self._p

    async def __aenter__(self):
        return self

    async def __aexit__(self, *a):
        return False


class _RestCall:
    """Awaitable context manager like aiohttp's request context: the reply may be delayed in virtual time."""

    def __init__(self, peer: "Peer", method: str, url: str, data: Any):
        self.peer, self.method, self.url, self.data = peer, method, url, data

    async def __aenter__(self):
        return await self.peer.rest(self.method, self.url, self.data)

    async def __aexit__(self, *a):
        return False


class FakeSession:
    """Stands for a caller-supplied ``aiohttp.ClientSession``: usable as an async context manager, and unusable once
    closed (which is the caller's business, never the library's)."""

    def __init__(self, peer: "Peer"):
        self.peer = peer
        self.closed = False

    async def __aenter__(self):
        return self

    async def __aexit__(self, *a):
        await self.close()
        return False

    async def close(self):
        if not self.closed:
            self.closed = True
            self.peer.session_closed_at = self.peer.now()

    def ws_connect(self, url, heartbeat=None, **kw):
        if self.closed:
            raise RuntimeError("Session is closed")
        return _WSContext(self.peer)

    def _verb(method):  # noqa
        def f(self, url, headers=None, params=None, data=None, timeout=None, **kw):
            if self.closed:
                raise RuntimeError("Session is closed")
            fields = {}
            if data is not None:
                if isinstance(data, dict):
                    fields = dict(data)
                else:
                    for opts, _h, value in getattr(data, "_fields", []):
                        fields[opts["name"]] = value
            return _RestCall(self.peer, method, str(url), fields)
        return f

    get = _verb("GET")
    post = _verb("POST")
    put = _verb("PUT")
    delete = _verb("DELETE")


class Peer:
    """The scripted server: accepts connections, records frames and REST calls, injects faults."""

    def __init__(self, loop, t0: float):
        self.loop = loop
        self.t0 = t0
        self.conns: List[FakeWS] = []
        self.connect_attempts: List[float] = []
        self.attempt_conn: List[Optional[int]] = []   # per attempt: the connection it produced, None if it failed
        self.rest_log: List[tuple] = []            # (t, method, path, fields, outcome)
        self.listen_keys: List[Dict[str, Any]] = []  # {key, created_at, path, symbol}
        self.keep_alives: List[tuple] = []         # (t, key, ok)
        self.fail_listen_key = 0
        self.fail_keep_alive = 0
        self.fail_connect = 0
        self.fail_token = 0
        self.rest_delay = 0.0
        self.next_reply_delay = 0.0
        self.next_sub_error = False
        self.on_frame = None      # callback(ws, msg) installed by the client adapter
        self.session_closed_at: Optional[float] = None
        self.tokens: Dict[str, float] = {}
        self.at_handshake: List[str] = []     # frames the next accepted connection finds waiting for it

    def now(self) -> float:
        return round(self.loop.time() - self.t0, 6)

    async def accept(self) -> FakeWS:
        self.connect_attempts.append(self.now())
        self.attempt_conn.append(None)
        if self.fail_connect > 0:
            self.fail_connect -= 1
            raise aiohttp.ClientConnectionError("connection refused")
        ws = FakeWS(self, len(self.conns))
        self.attempt_conn[-1] = ws.cid
        ws.reply_delay = self.next_reply_delay
        ws.sub_error = self.next_sub_error
        self.next_sub_error = False
        self.conns.append(ws)
        if self.at_handshake:
            what = self.at_handshake.pop(0)
            if what == "close":
                ws.server_close()
            else:
                ws.close_cause = "server_reconnect_request"
                ws.push_json({"event": "bts:request_reconnect", "channel": "", "data": ""})
        return ws

    def on_client_frame(self, ws: FakeWS, msg: dict):
        if self.on_frame is not None:
            self.on_frame(ws, msg)

    def later(self, delay: float, fn):
        if delay <= 0:
            fn()
        else:
            self.loop.call_later(delay, fn)

    async def rest(self, method: str, url: str, fields: Dict[str, Any]) -> _Resp:
        path = "/" + url.split("//", 1)[1].split("/", 1)[1] if "//" in url else url
        path = path.split("?", 1)[0]
        if self.rest_delay:
            await asyncio.sleep(self.rest_delay)
        t = self.now()
        if path.endswith("userDataStream") or path.endswith("userDataStream/isolated"):
            if method == "POST":
                if self.fail_listen_key > 0:
                    self.fail_listen_key -= 1
                    self.rest_log.append((t, method, path, fields, "fail"))
                    return _Resp(500, {"code": -1000, "msg": "listen key creation failed"})
                key = f"lk{len(self.listen_keys) + 1}"
                self.listen_keys.append({"key": key, "created_at": t, "path": path, "symbol": fields.get("symbol")})
                self.rest_log.append((t, method, path, fields, key))
                return _Resp(200, {"listenKey": key})
            if method == "PUT":
                key = fields.get("listenKey")
                ok = True
                if self.fail_keep_alive > 0:
                    self.fail_keep_alive -= 1
                    ok = False
                self.keep_alives.append((t, key, ok, path, fields.get("symbol")))
                self.rest_log.append((t, method, path, fields, "ok" if ok else "fail"))
                return _Resp(200, {}) if ok else _Resp(500, {"code": -1000, "msg": "keep alive failed"})
        if path.endswith("websockets_token/"):
            if self.fail_token > 0:
                self.fail_token -= 1
                self.rest_log.append((t, method, path, fields, "fail"))
                return _Resp(500, {"status": "error", "reason": "token failed", "code": "X"})
            self.rest_log.append((t, method, path, fields, "ok"))
            tok = f"tok{len(self.rest_log)}"
            self.tokens[tok] = t            # websocket tokens are short-lived (60 seconds)
            return _Resp(200, {"token": tok, "user_id": 77})
        self.rest_log.append((t, method, path, fields, "ok"))
        return _Resp(200, {})
