"""C20 - the token bucket bounds the request rate (DESIGN.md section 5, C20).

The real ``TokenBucketLimiter`` is driven with generated arrival sequences under a substituted
clock (``basana.core.token_bucket.time`` is replaced by a shim - a module attribute, no repository
change). Two oracles watch the returned waits:

1. window bound over the send times (arrival + wait): any window of length L holds at most
   capacity + rate*L + 1 sends;
2. exact burst delay against a sequential reference bucket (lower bound on throttling *and* upper
   bound: the limiter never throttles more than the configured rate requires).

A client-level part drives the real Binance / Bitstamp REST clients with a limiter and an in-memory
transport under the virtual-time loop and checks that request n reaches the transport no earlier
than arrival + wait, where the wait is recomputed by the reference bucket.
"""
from __future__ import annotations

import asyncio
import math
from typing import Any, Dict, List

from vf import common
from vf.common import Context, Plan, ShardResult, Violation

LEVELS = {"C20": "exploration"}
RULES = {"C20": (
    "case = (tokens_per_period, period, initial_tokens, arrival mode, n) -> arrival sequence fed to the real "
    "TokenBucketLimiter.consume() under a substituted clock; non-trivial = the sequence contains a burst that "
    "exhausts the available tokens (some wait > 0) AND an idle gap longer than one period; distinct = digest of "
    "(parameters, mode, pattern of zero/positive waits run-length encoded)")}
ASSUMPTIONS = {"C20": [
    "callers wait exactly the returned time before sending (the statement's premise)",
    "time is read only through the module attribute `time` of basana.core.token_bucket (substituted by the harness)",
    "float arithmetic: comparisons use 1e-9 relative tolerance",
]}

MODES = ["burst", "poisson", "overload", "mixed", "just_after_refill", "idle_then_burst", "trickle"]


def plan(prop: str, tier: str) -> Plan:
    if tier == "quick":
        return Plan(shards=4, cases_per_shard=2500, timeout_s=300)
    return Plan(shards=16, cases_per_shard=120000, timeout_s=1500)


class Clock:
    def __init__(self) -> None:
        self.t = 1_700_000_000.0

    def time(self) -> float:
        return self.t


def gen_case(r) -> Dict[str, Any]:
    tpp = r.choice([0.3, 0.5, 1, 1, 2, 3, 5, 7.5, 10, 20, 100, 500, r.uniform(0.3, 50)])
    per = r.choice([1, 1, 2, 5, 10, 60, 600, 3600, 0.5, 2.5, 90000, 86400 * 2.5])     # also fractions of a second, days
    init = r.choice([0, 0, 1, tpp, tpp / 2, tpp * 3, tpp * 1.5, int(tpp), r.uniform(0, tpp)])
    mode = r.choice(MODES)
    n = r.choice([10, 30, 100, 100, 400, 2000]) if mode != "overload" else r.choice([50, 200, 1000])
    rate = tpp / per
    gaps: List[float] = []
    for i in range(n):
        if mode == "burst":
            g = 0.0 if r.random() < 0.8 else r.uniform(0, per * 2)
        elif mode == "poisson":
            g = r.expovariate(rate)
        elif mode == "overload":
            g = r.expovariate(rate * 5)
        elif mode == "mixed":
            g = r.choice([0.0, 0.0, r.uniform(0, per / 10), r.uniform(per, per * 5)])
        elif mode == "just_after_refill":
            # wait almost exactly one token's worth, slightly before / after
            g = (1.0 / rate) * r.choice([0.999999, 1.0, 1.000001, 0.5, 2.0])
        elif mode == "idle_then_burst":
            g = r.uniform(per, per * 20) if i % max(2, int(tpp) + 3) == 0 else 0.0
        else:  # trickle: far below the rate
            g = r.uniform(1.0 / rate, 3.0 / rate)
        gaps.append(g)
    return {"tpp": tpp, "period": per, "init": init, "mode": mode, "gaps": gaps}


def run_case(case: Dict[str, Any], res: ShardResult, scenario_for_replay: bool = True) -> None:
    import basana.core.token_bucket as tb

    tpp, per, init, gaps = case["tpp"], case["period"], case["init"], case["gaps"]
    rate = tpp / per
    cap = max(tpp, init)
    clk = Clock()
    saved = tb.time
    tb.time = clk
    try:
        lim = tb.TokenBucketLimiter(tpp, per, init)
        # Reference buckets: `lo` keeps an initial surplus until it is spent (capacity = max(tpp, init)),
        # `hi` caps at tokens_per_period immediately. For init <= tpp both coincide (exact formula).
        a_lo = float(init)
        a_hi = float(init)
        last = clk.t
        sends: List[float] = []
        pattern: List[str] = []
        saw_wait = False
        saw_idle = False
        bad: List[str] = []
        for i, g in enumerate(gaps):
            clk.t += g
            if g > per:
                saw_idle = True
            if i % 3 == 1:
                # somebody watches the bucket (logging, a dashboard): reading the level is not an arrival
                clk.t -= g / 2
                for _ in range(1 + i % 4):
                    level = lim.tokens
                    if not isinstance(level, int) or level < 0 or level > cap:
                        bad.append(f"request {i}: tokens property reads {level!r} (capacity {cap})")
                clk.t += g / 2
                res.count("level_reads")
            w = lim.consume()
            res.count("consume_calls")
            el = clk.t - last
            last = clk.t
            a_hi = min(tpp, a_hi + el * rate)
            a_lo = min(cap, a_lo + el * rate)
            a_hi -= 1
            a_lo -= 1
            exp_hi = max(0.0, -a_hi) / rate   # most throttling allowed
            exp_lo = max(0.0, -a_lo) / rate   # least throttling required
            tol = 1e-9 * max(1.0, exp_hi, 1.0 / rate)
            if not isinstance(w, (int, float)) or math.isnan(w):
                bad.append(f"request {i}: wait is {w!r}")
                break
            if w < 0:
                bad.append(f"request {i}: negative wait {w}")
            if w > exp_hi + tol:
                bad.append(f"request {i}: wait {w} exceeds what the rate requires {exp_hi} (over-throttling)")
            if w < exp_lo - tol:
                bad.append(f"request {i}: wait {w} below the required delay {exp_lo} (under-throttling)")
            if w > 0:
                saw_wait = True
            pattern.append("w" if w > 0 else "0")
            sends.append(clk.t + w)
            if bad:
                break
        # Oracle 1: window bound. count(i..j) <= cap + rate*(t_j - t_i) + 1 for all i <= j.
        sends.sort()
        m = float("inf")
        worst = -float("inf")
        for j, t in enumerate(sends):
            v = j - rate * t
            m = min(m, v)
            worst = max(worst, v - m + 1)
        res.count("windows_checked", len(sends))
        if sends and worst > cap + 1 + 1e-6 * max(1.0, cap):
            bad.append(f"window bound exceeded: some window holds {worst:.6f} - rate*L requests > capacity+1 = {cap + 1}")
        res.extra["max_window_excess"] = max(res.extra.get("max_window_excess", -1e18), worst - (cap + 1)) \
            if sends else res.extra.get("max_window_excess", -1e18)
    finally:
        tb.time = saved
    res.evaluations += 1
    if saw_wait and saw_idle:
        rle = []
        for p in pattern:
            if not rle or rle[-1][0] != p:
                rle.append([p, 1])
            else:
                rle[-1][1] = min(rle[-1][1] + 1, 9)
        res.nontrivial.add(common.digest([tpp, per, init, case["mode"], rle[:40]]))
    res.sample({"tokens_per_period": tpp, "period": per, "initial": init, "mode": case["mode"], "n": len(gaps),
                "first_gaps": [round(g, 6) for g in gaps[:8]], "first_sends_rel": [round(s - 1_700_000_000.0, 6) for s in sends[:8]]})
    for msg in bad[:2]:
        kind = "negative_wait" if "negative" in msg else "window_bound" if "window" in msg else \
            "over_throttling" if "over-" in msg else "under_throttling" if "under-" in msg else "bad_wait"
        res.violate(Violation("C20", kind, f"tpp={tpp} period={per} init={init} mode={case['mode']}: {msg}",
                              scenario={"part": "bucket", "case": case}))


# ---------------------------------------------------------------------------------------------
# client level: real REST clients + limiter + in-memory transport under virtual time
# ---------------------------------------------------------------------------------------------

class _Resp:
    status = 200
    ok = True
    reason = "OK"
    headers = {"Content-Type": "application/json"}

    async def json(self):
        return {}

    async def __aenter__(self):
        return self

    async def __aexit__(self, *a):
        return False


class _ErrResp(_Resp):
    ok = False

    def __init__(self, status: int, payload):
        self.status = status
        self.reason = "Too Many Requests" if status == 429 else "Server Error"
        self._payload = payload
        self.headers = {"Content-Type": "application/json"} if payload is not None else {"Content-Type": "text/html"}

    async def json(self):
        return self._payload


class _Raising:
    def __init__(self, ex):
        self.ex = ex

    async def __aenter__(self):
        raise self.ex

    async def __aexit__(self, *a):
        return False


class _Transport:
    """Every request that reaches the transport is stamped; its outcome (reply, HTTP error, error payload, timeout,
    disconnect) is scripted per request - a request that fails was still sent and still counts against the rate."""

    def __init__(self, loop, outcomes=None):
        self.loop = loop
        self.seen: List[float] = []
        self.outcomes = outcomes or []

    def _req(self, url, **kw):
        import aiohttp
        k = len(self.seen)
        self.seen.append(self.loop.time())
        o = self.outcomes[k % len(self.outcomes)] if self.outcomes else "ok"
        if o == "http429":
            return _ErrResp(429, {"code": -1003, "msg": "Too many requests", "status": "error", "reason": "Too many requests"})
        if o == "http500":
            return _ErrResp(500, None)
        if o == "timeout":
            return _Raising(asyncio.TimeoutError())
        if o == "disconnect":
            return _Raising(aiohttp.ServerDisconnectedError())
        return _Resp()

    get = post = put = delete = _req


def gen_client_case(r) -> Dict[str, Any]:
    tpp = r.choice([1, 2, 3, 5, 10])
    per = r.choice([1, 2, 10])
    init = r.choice([0, 1, tpp])
    n = r.randint(3, 25)
    arrivals = []
    t = 0.0
    for _ in range(n):
        t += r.choice([0.0, 0.0, 0.0, 0.01, per / tpp, per * 2.5])
        arrivals.append(round(t, 6))
    outcomes = ["ok"]
    if r.random() < 0.5:
        outcomes = [r.choice(["ok", "http429", "http500", "timeout", "disconnect"]) for _ in range(r.randint(1, 6))]
    client = r.choice(["binance", "binance", "bitstamp", "wait"])
    cancel_after = r.choice([None, 0.137, 0.4137, 1.0137]) if client == "wait" else None
    poll_interval = r.choice([None, None, 0.3137, 1.0731, per / tpp + 0.00137, 2.5 * per / tpp + 0.0137]) if client == "binance" else None
    return {"client": client, "cancel_after": cancel_after, "poll_interval": poll_interval, "tpp": tpp, "period": per, "init": init, "arrivals": arrivals,
            "outcomes": outcomes if client != "wait" else ["ok"],
            "kinds": [r.choice(["pub", "spot", "cross", "isolated"]) for _ in range(r.randint(1, 5))]}


def run_client_case(case: Dict[str, Any], res: ShardResult) -> None:
    from vf import vclock
    import basana.core.token_bucket as tb

    with vclock.virtual_time() as loop:
        transport = _Transport(loop, case.get("outcomes"))
        lim = tb.TokenBucketLimiter(case["tpp"], case["period"], case["init"])
        t0 = loop.time()
        failures = [0]
        gave_up = [0]
        nth = [0]
        if case["client"] == "wait":
            # the limiter's own wait(): concurrent waiters are released one token apart, like callers that sleep the
            # time consume() returns
            cancel_after = case.get("cancel_after")

            async def call():
                if cancel_after:
                    # an impatient caller gives up after a while and tries again: the slot it had taken is lost
                    try:
                        await asyncio.wait_for(lim.wait(), timeout=cancel_after)
                    except asyncio.TimeoutError:
                        gave_up[0] += 1
                        await lim.wait()
                else:
                    await lim.wait()
                transport.seen.append(loop.time())
        elif case["client"] == "binance":
            # one limiter for the whole client: public, spot, cross- and isolated-margin endpoints draw from it
            from basana.external.binance import client as bn_client
            cli = bn_client.APIClient("k", "s", session=transport, tb=lim,
                                      config_overrides={"api": {"http": {"base_url": "http://x/"}}})
            kinds = case.get("kinds") or ["pub"]

            async def call():
                k = kinds[nth[0] % len(kinds)]
                nth[0] += 1
                if k == "spot":
                    await cli.spot_account.get_account_information()
                elif k == "cross":
                    await cli.cross_margin_account.get_account_information()
                elif k == "isolated":
                    await cli.isolated_margin_account.get_account_information()
                else:
                    await cli.get_exchange_info()
        else:
            from basana.external.bitstamp import client as sclient
            cli = sclient.APIClient("k", "s", session=transport, tb=lim,
                                    config_overrides={"api": {"http": {"base_url": "http://x/"}}})

            async def call():
                await cli._make_request("GET", "/api/v2/ticker/btcusd/", False)

        async def one(at):
            await asyncio.sleep(at)
            try:
                await call()
            except Exception:
                failures[0] += 1      # the caller sees the failure; the request was sent all the same

        poll_iv = case.get("poll_interval") if case["client"] == "binance" else None
        t_last = [None]

        async def main():
            ptask = None
            if poll_iv:
                # an order-book poller built with the same limiter runs next to the client's own requests
                from basana.external.binance import order_book as bn_ob
                from basana.core.pair import Pair
                poller = bn_ob.PollOrderBook(Pair("BTC", "USDT"), poll_iv, session=transport, tb=lim,
                                             config_overrides={"api": {"http": {"base_url": "http://x/"}}})
                ptask = asyncio.ensure_future(poller.main())
            await asyncio.gather(*[one(a) for a in case["arrivals"]])
            t_last[0] = loop.time() - t0
            if ptask is not None:
                ptask.cancel()
                await asyncio.gather(ptask, return_exceptions=True)

        loop.run_until_complete(main())
        seen = sorted(s - t0 for s in transport.seen)
    res.evaluations += 1
    res.count("client_requests", len(seen))
    res.count("client_requests:" + case["client"], len(seen))
    res.count("client_requests_failed", failures[0])
    # Reference: requests are consumed in arrival order (gather creates the tasks in order, equal arrival
    # times keep FIFO order); send time = arrival + reference wait.
    rate = case["tpp"] / case["period"]
    a = float(case["init"])
    last = 0.0
    exp = []
    import heapq
    ca = case.get("cancel_after") if case["client"] == "wait" else None
    pending = [(at, k, True) for k, at in enumerate(case["arrivals"])]      # (time, tie-break, may give up)
    if poll_iv:
        pending.append((0.0, -1, "poll"))          # the poller's first request; every next one follows its own sending
    heapq.heapify(pending)
    retries = 0
    polls = 0
    while pending:
        at, k, first = heapq.heappop(pending)
        if first == "poll" and t_last[0] is not None and at > t_last[0] + 1e-9:
            continue
        a = min(case["tpp"], a + (at - last) * rate)
        last = at
        a -= 1
        wait = max(0.0, -a) / rate
        if first == "poll":
            polls += 1
            exp.append(at + wait)
            heapq.heappush(pending, (at + wait + poll_iv, -1, "poll"))
            continue
        if ca and first and wait > ca + 1e-9:
            retries += 1
            heapq.heappush(pending, (at + ca, 10 ** 6 + k, False))         # the token it took stays taken
        else:
            exp.append(at + wait)
    exp.sort()
    if poll_iv and t_last[0] is not None:
        # only what was sent while the client's own requests were still coming is compared (the poller is cancelled at an
        # arbitrary instant afterwards)
        cut = t_last[0] - 1e-6
        exp = [e for e in exp if e <= cut]
        seen = [s_ for s_ in seen if s_ <= cut]
        res.count("poller_requests", polls)
    res.count("waiters_that_gave_up", gave_up[0])
    if ca and retries != gave_up[0]:
        exp = []      # the reference and the run disagree on who gave up (a boundary within float noise): not judged
        seen = []
    bad = None
    if len(seen) != len(exp):
        bad = f"{len(exp)} requests issued but {len(seen)} reached the transport"
    else:
        for i, (s, e) in enumerate(zip(seen, exp)):
            if s < e - 1e-6:
                bad = f"request {i} reached the transport at {s:.6f}, before arrival+wait {e:.6f}"
                break
            if s > e + 1e-3:
                bad = f"request {i} reached the transport at {s:.6f}, later than arrival+wait {e:.6f} (over-throttled)"
                break
    if any(w > 0 for w in [e - a0 for e, a0 in zip(sorted(exp), sorted(case["arrivals"]))]):
        res.nontrivial.add(common.digest(["client", case["client"], case["tpp"], case["period"], case["init"],
                                          [round(x, 3) for x in case["arrivals"]]]))
    if bad:
        res.violate(Violation("C20", "client_send_before_wait", f"{case['client']} client: {bad}",
                              scenario={"part": "client", "case": case}))


def run_shard(ctx: Context, res: ShardResult) -> None:
    n_client = max(20, ctx.cases // 50)
    for k, i in enumerate(ctx.case_ids()):
        if ctx.out_of_time():
            res.errors.append("ran out of time")
            break
        r = ctx.rng("bucket", i)
        run_case(gen_case(r), res)
        if k < n_client:
            run_client_case(gen_client_case(ctx.rng("client", i)), res)
    if "max_window_excess" in res.extra:
        res.extra["max_window_excess"] = round(res.extra["max_window_excess"], 6)


def replay(prop: str, scenario: Dict[str, Any], res: ShardResult) -> None:
    if scenario["part"] == "bucket":
        run_case(scenario["case"], res)
    else:
        run_client_case(scenario["case"], res)


def finalize(prop: str, tier: str, merged: ShardResult) -> Dict[str, Any]:
    out: Dict[str, Any] = {"inconclusive": [], "coverage": {}}
    if merged.counters.get("consume_calls", 0) < 1000:
        out["inconclusive"].append("fewer than 1000 consume() calls observed")
    if merged.counters.get("client_requests_failed", 0) < 20:
        out["inconclusive"].append("fewer than 20 failing client requests observed")
    if merged.counters.get("client_requests", 0) < 50:
        out["inconclusive"].append("client-level part observed fewer than 50 requests")
    exc = merged.extra.get("max_window_excess")
    if exc:
        out["coverage"]["max_window_count_minus_bound"] = max(exc)
    return out
