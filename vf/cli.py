import argparse
import os
import sys

from vf import common


def main() -> int:
    ap = argparse.ArgumentParser(prog="check")
    ap.add_argument("prop")
    ap.add_argument("--tier", default=os.environ.get("VERIF_TIER", "quick"), choices=["quick", "thorough"])
    ap.add_argument("--replay")
    ap.add_argument("--seed", type=int, default=None)
    a = ap.parse_args()
    if a.prop not in common.REGISTRY:
        print(f"unknown property {a.prop}")
        return 2
    if a.replay:
        return common.run_replay(a.prop, a.replay)
    seed = a.seed if a.seed is not None else common.env_seed()
    return common.run_check(a.prop, a.tier, seed)


if __name__ == "__main__":
    sys.exit(main())
