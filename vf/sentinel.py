"""Coverage sentinels on the anchored repository code through sys.monitoring (PEP 669).

* ``PY_START`` counters for every function of the watched modules: evidence of what the workload
  reached and the basis of the *inconclusive* verdict when a deciding path never ran.
* one-shot ``LINE`` events (the callback returns DISABLE): set of executed statement lines per file,
  so that branch-level reachability ("the re-index swap line ran") can be asserted cheaply.
"""
from __future__ import annotations

import importlib
import sys
import types
from typing import Dict, Iterable, List, Set, Tuple

TOOL_ID = 4  # sys.monitoring.OPTIMIZER_ID+? any free id in 0..5


def _code_objects(mod: types.ModuleType) -> Iterable[types.CodeType]:
    seen: Set[int] = set()
    fname = getattr(mod, "__file__", None)

    def walk(code: types.CodeType):
        if id(code) in seen:
            return
        seen.add(id(code))
        yield code
        for c in code.co_consts:
            if isinstance(c, types.CodeType):
                yield from walk(c)

    def from_obj(obj):
        if isinstance(obj, (types.FunctionType,)):
            if obj.__code__.co_filename == fname:
                yield from walk(obj.__code__)
        elif isinstance(obj, (staticmethod, classmethod)):
            yield from from_obj(obj.__func__)
        elif isinstance(obj, property):
            for f in (obj.fget, obj.fset, obj.fdel):
                if f is not None:
                    yield from from_obj(f)
        elif isinstance(obj, type) and obj.__module__ == mod.__name__:
            for v in vars(obj).values():
                yield from from_obj(v)
        elif hasattr(obj, "__wrapped__"):
            yield from from_obj(obj.__wrapped__)

    for v in list(vars(mod).values()):
        yield from from_obj(v)


class Sentinel:
    def __init__(self, module_names: List[str], lines: bool = True):
        self.calls: Dict[str, int] = {}
        self.lines: Set[Tuple[str, int]] = set()
        self._names: Dict[types.CodeType, str] = {}
        self._active = False
        self._want_lines = lines
        self._modules = [importlib.import_module(n) for n in module_names]

    def start(self) -> None:
        mon = sys.monitoring
        try:
            mon.use_tool_id(TOOL_ID, "vf-sentinel")
        except ValueError:
            return  # already in use (nested); stay inactive
        self._active = True
        ev = mon.events
        mon.register_callback(TOOL_ID, ev.PY_START, self._on_start)
        if self._want_lines:
            mon.register_callback(TOOL_ID, ev.LINE, self._on_line)
        for mod in self._modules:
            short = mod.__name__.replace("basana.", "")
            for code in _code_objects(mod):
                self._names[code] = f"{short}:{code.co_qualname}"
                mask = ev.PY_START | (ev.LINE if self._want_lines else 0)
                mon.set_local_events(TOOL_ID, code, mask)

    def _on_start(self, code, offset):
        name = self._names.get(code)
        if name is not None:
            self.calls[name] = self.calls.get(name, 0) + 1

    def _on_line(self, code, line):
        name = self._names.get(code)
        if name is not None:
            self.lines.add((name.split(":")[0], line))
        return sys.monitoring.DISABLE

    def stop(self) -> None:
        if not self._active:
            return
        mon = sys.monitoring
        for code in self._names:
            mon.set_local_events(TOOL_ID, code, 0)
        mon.register_callback(TOOL_ID, mon.events.PY_START, None)
        mon.register_callback(TOOL_ID, mon.events.LINE, None)
        mon.free_tool_id(TOOL_ID)
        self._active = False

    def line_hit(self, module_short: str, line: int) -> bool:
        return (module_short, line) in self.lines

    def lines_per_file(self) -> Dict[str, int]:
        out: Dict[str, int] = {}
        for f, _ in self.lines:
            out[f] = out.get(f, 0) + 1
        return out
