"""C19 - bars built from CSV rows and from live trades are faithful (DESIGN.md section 5, C19).

Part A (csv): generated files are read through the real bar sources, driven with
``initialize()`` / ``pop()`` exactly as the dispatcher does, and compared row by row with a
reference computed from the generated rows.

Part B (trades): the real ``RealTimeTradesToBar.main()`` runs under the virtual-time loop while a
feeder pushes trades at virtual instants. Every trade carries a unique power-of-two amount, so the
volume of each emitted bar identifies exactly which trades were counted in it; the oracle checks
window membership, OHLC, bar order, bar timestamps and emission time.
"""
from __future__ import annotations

import asyncio
import codecs
import datetime
import os
import shutil
import tempfile
from decimal import Decimal
from typing import Any, Dict, List, Optional

from vf import common, vclock
from vf.common import Context, Plan, ShardResult, Violation

LEVELS = {"C19": "exploration"}
RULES = {"C19": (
    "csv case = (source class, period, encoding/BOM, newline, row order, rows with zero volume / invalid OHLC / long "
    "decimals, sort flag); trade case = (bar duration, start offset, skip_first_bar, flush_delay, trades with "
    "(timestamp, push instant) including first/last microsecond of a window, late and out-of-order ones). "
    "Non-trivial: csv file with >= 2 out-of-order rows or a BOM or an invalid row; trade stream with >= 1 trade in "
    "the first or last millisecond of a window and >= 2 non-empty windows. Distinct = digest of the case shape "
    "(class, encoding, order kind, flags / duration, edge classes of the trades per window).")}
ASSUMPTIONS = {"C19": [
    "zero-volume CSV rows are don't-care (common parser skips them, Yahoo parser does not; the statement speaks of "
    "non-zero rows)",
    "UTF-16/32 files are generated with a BOM (BOM-less UTF-16/32 cannot be told from UTF-8 by any reader)",
    "a trade is 'on time' when pushed at least 2 ms before the nominal flush instant begin+duration+flush_delay and "
    "'late' when pushed at least 2 ms after it; the harness never pushes inside that 4 ms zone",
    "Yahoo source is exercised with adjust_ohlc=False (adjusted values are not 'exactly the row's values')",
]}

UTC = datetime.timezone.utc


def plan(prop: str, tier: str) -> Plan:
    tzs = [{"TZ": "UTC"}, {"TZ": "EST5EDT"}, {"TZ": "XYZ-5:30"}, {"TZ": "UTC"}]   # process time zone must not matter
    if tier == "quick":
        return Plan(shards=4, cases_per_shard=700, timeout_s=400, shard_env=tzs)
    return Plan(shards=16, cases_per_shard=80000, timeout_s=2400, shard_env=tzs)


# ---------------------------------------------------------------------------------------------
# Part A: CSV sources
# ---------------------------------------------------------------------------------------------

ENCODINGS = [
    ("utf-8", b"", "utf-8"),
    ("utf-8-bom", codecs.BOM_UTF8, "utf-8"),
    ("utf-16-le-bom", codecs.BOM_UTF16_LE, "utf-16-le"),
    ("utf-16-be-bom", codecs.BOM_UTF16_BE, "utf-16-be"),
    ("utf-32-le-bom", codecs.BOM_UTF32_LE, "utf-32-le"),
    ("utf-32-be-bom", codecs.BOM_UTF32_BE, "utf-32-be"),
]


def _dec(r, big: bool = False) -> str:
    kind = r.choice(["int", "2dp", "8dp", "long", "small", "sci"]) if big else r.choice(["int", "2dp", "8dp"])
    if kind == "int":
        return str(r.randint(1, 100000))
    if kind == "2dp":
        return f"{r.randint(1, 10**7) / 100:.2f}"
    if kind == "8dp":
        return f"{r.randint(1, 10**12)}".rjust(9, "0")[:-8] + "." + f"{r.randint(1, 10**12)}".rjust(9, "0")[-8:]
    if kind == "long":
        return f"{r.randint(1, 10**6)}.{r.randint(1, 10**18):018d}"
    if kind == "small":
        return f"0.{r.randint(1, 10**10):012d}"
    return r.choice(["1E+3", "2.5E-7", "1.20E+2"])


# the documented period names of both exchanges, independent of the repository's own tables (period names are case
# sensitive: 1m is a minute, 1M a month, which the Binance tooling takes as 31 days)
PERIOD_SECONDS = {"1s": 1, "1m": 60, "3m": 180, "5m": 300, "15m": 900, "30m": 1800, "1h": 3600, "2h": 7200, "4h": 14400,
                  "6h": 21600, "8h": 28800, "12h": 43200, "1d": 86400, "3d": 259200, "1w": 604800, "1M": 31 * 86400,
                  "min": 60, "hour": 3600, "day": 86400}


def gen_csv_case(r) -> Dict[str, Any]:
    cls = r.choice(["binance", "bitstamp", "bitstamp_enum", "yahoo"])
    if cls == "binance":
        period = r.choice(["1s", "1m", "3m", "5m", "15m", "30m", "1h", "2h", "4h", "6h", "8h", "12h", "1d", "3d", "1w", "1M",
                           "1M", "1m"])
    elif cls == "bitstamp":
        period = r.choice(["min", "hour", "day", "1m", "3m", "5m", "15m", "30m", "1h", "2h", "4h", "6h", "12h", "1d",
                           "3d"])
    elif cls == "bitstamp_enum":
        period = r.choice(["MINUTE", "HOUR", "DAY"])
    else:
        period = r.choice(["24h", "1h", "7d"])
    n = r.choice([1, 2, 3, 5, 10, 30, 80, 200])
    order = r.choice(["sorted", "reversed", "shuffled", "sorted_with_ties"])
    base = datetime.datetime(r.randint(2011, 2030), r.randint(1, 12), r.randint(1, 28), tzinfo=UTC)
    step = {"yahoo": 86400}.get(cls, r.choice([1, 60, 3600, 86400]))
    starts = []
    t = 0
    for i in range(n):
        t += step * (0 if (order == "sorted_with_ties" and r.random() < 0.3 and i) else r.choice([1, 1, 2, 5]))
        starts.append(t)
    if order == "reversed":
        starts.reverse()
    elif order == "shuffled":
        r.shuffle(starts)
    rows = []
    invalid_at: Optional[int] = None
    want_invalid = r.random() < 0.15
    for i, s in enumerate(starts):
        big = r.random() < 0.3
        a, b, c, d = sorted(Decimal(_dec(r, big)) for _ in range(4))
        low, high = a, d
        o, cl = r.choice([(b, c), (c, b), (a, d), (d, a), (b, b)])
        vol = "0" if r.random() < 0.12 else r.choice(["0.0", _dec(r, big), _dec(r, big)]) if r.random() < 0.1 else _dec(r, big)
        row = {"start": s, "open": str(o), "high": str(high), "low": str(low), "close": str(cl), "volume": vol,
               "invalid": False}
        if want_invalid and invalid_at is None and Decimal(vol) != 0 and high != low and r.random() < 0.3:
            # break one of the OHLC relations
            how = r.choice(["high<low", "high<open", "low>close"])
            if how == "high<low":
                row["high"], row["low"] = row["low"], row["high"]
            elif how == "high<open":
                row["open"] = str(high + 1)
            else:
                row["close"] = str(low - Decimal("0.5")) if low > 1 else str(low / 2)
                if Decimal(row["close"]) >= low:
                    row["close"] = "0"
            row["invalid"] = True
            invalid_at = i
        rows.append(row)
    enc = r.choice(ENCODINGS)[0]
    return {
        "part": "csv", "cls": cls, "period": period, "base": base.isoformat(), "rows": rows, "encoding": enc,
        "newline": r.choice(["\n", "\r\n"]), "sort": r.choice([True, False]), "extra_col": r.random() < 0.4,
        "tz_offset_h": r.choice([0, 0, 0, -5, 3, 9]), "order": order,
        # the optional knobs: another field separator handed to the reader through dict_reader_kwargs, and (Yahoo) the
        # row parser's sanitize switch, which repairs rows whose high / low do not enclose open and close
        "delimiter": r.choice([",", ",", ",", ";", "\t"]), "sanitize": cls == "yahoo" and r.random() < 0.35,
        "reuse": r.choice([0, 0, 0, 0, 1, 3]),
    }


def _write_csv(case: Dict[str, Any], path: str) -> None:
    enc = [e for e in ENCODINGS if e[0] == case["encoding"]][0]
    base = datetime.datetime.fromisoformat(case["base"])
    nl = case["newline"]
    yahoo = case["cls"] == "yahoo"
    if yahoo:
        cols = ["Date", "Open", "High", "Low", "Close", "Volume", "Adj Close"]
    else:
        cols = ["datetime", "open", "high", "low", "close", "volume"]
    if case["extra_col"]:
        cols = cols + ["comment"]
    dl = case.get("delimiter", ",")
    lines = [dl.join(cols)]
    for row in case["rows"]:
        start = base + datetime.timedelta(seconds=row["start"])
        if yahoo:
            vals = [start.strftime("%Y-%m-%d"), row["open"], row["high"], row["low"], row["close"], row["volume"],
                    row["close"]]
        else:
            vals = [start.strftime("%Y-%m-%d %H:%M:%S"), row["open"], row["high"], row["low"], row["close"],
                    row["volume"]]
        if case["extra_col"]:
            vals.append("café € 日本")
        lines.append(dl.join(vals))
    text = nl.join(lines) + nl
    with open(path, "wb") as f:
        f.write(enc[1] + text.encode(enc[2]))


def _make_source(case: Dict[str, Any], path: str):
    from basana.core.pair import Pair
    tzinfo = datetime.timezone(datetime.timedelta(hours=case["tz_offset_h"]))
    pair = Pair("BTC", "USD")
    drk = {"dict_reader_kwargs": {"delimiter": case["delimiter"]}} if case.get("delimiter", ",") != "," else {}
    if case["cls"] == "binance":
        from basana.external.binance.csv import bars as bcsv
        return bcsv.BarSource(pair, path, case["period"], sort=case["sort"], tzinfo=tzinfo, **drk), \
            PERIOD_SECONDS[case["period"]], tzinfo
    if case["cls"] in ("bitstamp", "bitstamp_enum"):
        from basana.external.bitstamp.csv import bars as scsv
        period_to_step = PERIOD_SECONDS
        if case["cls"] == "bitstamp_enum":
            period = getattr(scsv.BarPeriod, case["period"])
            secs = {"MINUTE": 60, "HOUR": 3600, "DAY": 86400}[case["period"]]
        else:
            period = case["period"]
            secs = period_to_step[period]
        return scsv.BarSource(pair, path, period, sort=case["sort"], tzinfo=tzinfo, **drk), secs, tzinfo
    from basana.external.yahoo import bars as ybars
    secs = {"24h": 86400, "1h": 3600, "7d": 7 * 86400}[case["period"]]
    ysrc = ybars.CSVBarSource(pair, path, sort=case["sort"], tzinfo=tzinfo, timedelta=datetime.timedelta(seconds=secs), **drk)
    if case.get("sanitize"):
        ysrc.row_parser.sanitize = True
    return ysrc, secs, tzinfo


def run_csv_case(case: Dict[str, Any], res: ShardResult, tmpdir: str) -> None:
    from basana.core import bar as bbar

    path = os.path.join(tmpdir, "case.csv")
    _write_csv(case, path)
    src, secs, tzinfo = _make_source(case, path)
    base = datetime.datetime.fromisoformat(case["base"])
    yahoo = case["cls"] == "yahoo"
    # Reference, in file order.
    ref = []
    first_invalid = None
    for i, row in enumerate(case["rows"]):
        start = base + datetime.timedelta(seconds=row["start"])
        if yahoo:
            start = datetime.datetime(start.year, start.month, start.day)
        else:
            start = start.replace(tzinfo=None)
        start = start.replace(tzinfo=tzinfo)
        o_, h_, l_, c_ = (Decimal(row[k]) for k in ("open", "high", "low", "close"))
        if case.get("sanitize"):
            h_, l_ = max(h_, o_, c_), min(l_, o_, c_)       # what "sanitized" means: high / low enclose open and close
        elif row["invalid"]:
            first_invalid = len(ref) if first_invalid is None else first_invalid
            continue
        if Decimal(row["volume"]) == 0:
            continue
        ref.append((start + datetime.timedelta(seconds=secs), start, o_, h_, l_, c_, Decimal(row["volume"])))
    has_invalid = any(r["invalid"] for r in case["rows"]) and not case.get("sanitize")

    got = []
    raised = None
    other_exc: List[str] = []

    async def drive():
        nonlocal raised
        if case.get("reuse"):
            # the same source object served an earlier run that stopped before the file was exhausted
            await src.initialize()
            try:
                for _ in range(case["reuse"]):
                    if src.pop() is None:
                        break
            except Exception:
                pass
            finally:
                await src.finalize()
            res.count("csv_sources_reused")
        await src.initialize()
        try:
            while True:
                try:
                    ev = src.pop()
                except bbar.InvalidBar as e:
                    raised = e
                    break
                except Exception as e:  # anything else escaping from the source is a failure to read the file
                    other_exc.append(f"{type(e).__name__}: {e}")
                    break
                if ev is None:
                    break
                got.append(ev)
        finally:
            await src.finalize()

    loop = asyncio.new_event_loop()
    try:
        loop.run_until_complete(drive())
    finally:
        loop.close()
    res.evaluations += 1
    res.count("csv_files")
    res.count("csv_rows", len(case["rows"]))
    res.count("csv_events_checked", len(got))

    def bad(kind: str, msg: str) -> None:
        res.violate(Violation("C19", kind, f"{case['cls']} {case['period']} {case['encoding']} sort={case['sort']} "
                                           f"order={case['order']}: {msg}", scenario=case))

    if other_exc:
        bad("csv_source_raised", f"reading the file raised {other_exc[0]}")
    tuples = []
    for ev in got:
        b = ev.bar
        if not (b.low <= b.open <= b.high and b.low <= b.close <= b.high):
            bad("csv_bar_ohlc_invariant", f"bar {b.datetime} violates low<=open,close<=high: {b.open} {b.high} {b.low} {b.close}")
        if yahoo and b.volume == 0:
            continue  # don't-care
        tuples.append((ev.when, b.datetime, b.open, b.high, b.low, b.close, b.volume))
    if has_invalid:
        res.count("csv_invalid_files")
        if raised is None:
            bad("csv_invalid_row_not_rejected", "a row with inconsistent OHLC did not raise InvalidBar")
        elif case["sort"]:
            if tuples:
                bad("csv_invalid_row_partial", "events were yielded although loading must fail before sorting")
        else:
            exp_prefix = ref[:first_invalid]
            if tuples != exp_prefix:
                bad("csv_prefix_mismatch", f"events before the invalid row differ: got {len(tuples)} expected {len(exp_prefix)}")
        sig_extra = "invalid"
    else:
        sig_extra = ""
        if raised is not None:
            bad("csv_spurious_invalid_bar", f"InvalidBar raised for a valid file: {raised}")
        else:
            if case["sort"]:
                whens = [t[0] for t in tuples]
                if any(a > b for a, b in zip(whens, whens[1:])):
                    bad("csv_not_sorted", "events are not in non-decreasing time order although sort=True")
                key = lambda t: (t[0], t[1], t[2], t[3], t[4], t[5], t[6])  # noqa: E731
                if sorted(tuples, key=key) != sorted(ref, key=key):
                    bad("csv_rows_mismatch", _diff(tuples, ref))
            else:
                if tuples != ref:
                    bad("csv_rows_mismatch", _diff(tuples, ref))
    out_of_order = sum(1 for a, b in zip(case["rows"], case["rows"][1:]) if a["start"] > b["start"])
    if out_of_order >= 2 or case["encoding"] != "utf-8" or has_invalid:
        res.nontrivial.add(common.digest(["csv", case["cls"], case["period"], case["encoding"], case["newline"],
                                          case["order"], case["sort"], case["extra_col"], sig_extra,
                                          min(len(case["rows"]), 10), case["tz_offset_h"]]))
    res.sample({"part": "csv", "cls": case["cls"], "period": case["period"], "encoding": case["encoding"],
                "order": case["order"], "sort": case["sort"], "rows": len(case["rows"]), "events": len(got),
                "first_row": case["rows"][0]})


def _diff(got: List, ref: List) -> str:
    if len(got) != len(ref):
        return f"{len(got)} events for {len(ref)} non-zero-volume rows"
    for i, (g, e) in enumerate(zip(got, ref)):
        if g != e:
            return f"event {i} differs: got {tuple(map(str, g))} expected {tuple(map(str, e))}"
    return "same multiset, different order"


# ---------------------------------------------------------------------------------------------
# Part B: trades -> bars under virtual time
# ---------------------------------------------------------------------------------------------

US = 1_000_000


class StepBudget:
    """Logical-step budget for RealTimeTradesToBar.main(): sys.monitoring LINE events of that one code object are
    counted per scenario; a loop that stops awaiting (pure CPU, invisible to the event loop and to the virtual clock)
    exhausts the budget and is interrupted by raising from the callback. Deterministic: no wall clock involved."""
    TOOL = 3
    LIMIT = 200_000
    count = 0
    exceeded = False
    installed = False

    @classmethod
    def install(cls):
        import sys
        from basana.core import bar as bbar
        if cls.installed:
            return
        mon = sys.monitoring
        try:
            mon.use_tool_id(cls.TOOL, "vf-step-budget")
        except ValueError:
            return
        code = bbar.RealTimeTradesToBar.main.__code__

        def on_line(c, line):
            cls.count += 1
            if cls.count > cls.LIMIT:
                cls.exceeded = True
                cls.count = 0
                raise vclock.Livelock("RealTimeTradesToBar.main() executed more than 200000 lines in one scenario")
        mon.register_callback(cls.TOOL, mon.events.LINE, on_line)
        mon.set_local_events(cls.TOOL, code, mon.events.LINE)
        cls.installed = True

    @classmethod
    def reset(cls):
        cls.count = 0
        cls.exceeded = False


def gen_trade_case(r) -> Dict[str, Any]:
    dur = r.choice([1, 1, 2, 5, 10, 60, 60, 300, 3600])
    flush_delay = r.choice([0.5, 0.5, 0.0, 0.1, 1.0, 2.0])
    nwin = r.randint(2, 6)
    # The run starts somewhere inside window 0.
    start_off_us = r.choice([0, 1, 999, 1000, r.randrange(dur * US), r.randrange(dur * US), dur * US - 1])
    start_off_us = min(start_off_us, dur * US - 1)
    trades = []
    k = 0
    for w in range(nwin):
        if w > 0 and r.random() < 0.2:
            continue  # empty window
        for _ in range(r.choice([1, 1, 2, 3, 5, 8])):
            cls = r.choice(["first_us", "last_us", "last_ms", "first_ms", "mid", "mid", "mid"])
            if cls == "first_us":
                off = 0
            elif cls == "last_us":
                off = dur * US - 1
            elif cls == "last_ms":
                off = dur * US - r.randint(1, 999)
            elif cls == "first_ms":
                off = r.randint(0, 999)
            else:
                off = r.randrange(dur * US)
            ts_us = w * dur * US + off
            if w == 0 and ts_us < start_off_us:
                ts_us = min(start_off_us + off % (dur * US - start_off_us), dur * US - 1)
            # Push instant relative to the trade timestamp: network latency, sometimes beyond the flush (late).
            flush_us = (w + 1) * dur * US + int(flush_delay * US)
            mode = r.choice(["fast", "fast", "fast", "slow", "late", "skew"])
            if mode == "fast":
                push_us = ts_us + r.choice([0, 50, 1000, 20000])
            elif mode == "slow":
                push_us = flush_us - r.choice([2001, 2500, 10000])
            elif mode == "late":
                push_us = flush_us + r.choice([2001, 5000, 300000])
            else:  # local clock slightly behind the exchange's
                push_us = ts_us - r.choice([100, 1500])
            # keep out of the +-2 ms ambiguous zone around the nominal flush instants of *every* window
            push_us = max(push_us, start_off_us)
            for w2 in range(nwin + 2):
                f2 = (w2 + 1) * dur * US + int(flush_delay * US)
                if abs(push_us - f2) <= 2000:
                    push_us = f2 - 2001 if push_us <= f2 else f2 + 2001
            push_us = max(push_us, start_off_us)
            price = Decimal(r.randint(1, 5000)) / Decimal(r.choice([1, 10, 100]))
            trades.append({"ts_us": ts_us, "push_us": push_us, "price": str(price), "amount_exp": k, "cls": cls,
                           "mode": mode})
            k += 1
    trades.sort(key=lambda t: (t["push_us"], t["ts_us"]))
    for i, t in enumerate(trades):
        t["amount_exp"] = i
    return {"part": "trades", "duration": dur, "flush_delay": flush_delay, "skip_first_bar": r.random() < 0.4,
            "start_off_us": start_off_us, "nwin": nwin, "trades": trades,
            "impl": r.choice(["core", "bitstamp"]),
            "base_windows": r.choice([0, 1, 17, 1000])}


def run_trade_case(case: Dict[str, Any], res: ShardResult) -> None:
    from basana.core import bar as bbar
    from basana.core.pair import Pair

    dur = case["duration"]
    fd = case["flush_delay"]
    nwin = case["nwin"]
    base_us = case["base_windows"] * dur * US          # offset of window 0 from the (aligned) virtual epoch
    start_ns = (base_us + case["start_off_us"]) * 1000
    errors: List[str] = []
    visible: List[tuple] = []                            # (virtual us when first seen, event)
    pair = Pair("BTC", "USD")

    with vclock.virtual_time(start_ns=start_ns) as loop:
        if case["impl"] == "bitstamp":
            from basana.external.bitstamp import exchange as bsx
            from basana.external.bitstamp import trades as bstrades
            cls = bsx.RealTimeTradesToBar
        else:
            cls = bbar.RealTimeTradesToBar

        class Src(cls):  # type: ignore[misc,valid-type]
            def on_error(self, error):
                errors.append(str(error))

        src = Src(pair, dur, skip_first_bar=case["skip_first_bar"], flush_delay=fd)

        def now_us() -> int:
            return loop.now_ns() // 1000 - base_us

        def ts_dt(us: int) -> datetime.datetime:
            return vclock.EPOCH + datetime.timedelta(microseconds=base_us + us)

        async def sleep_until(us: int):
            delta = (us + base_us) * 1000 - loop.now_ns()
            if delta > 0:
                await asyncio.sleep(delta / 1e9)

        async def feeder():
            for t in case["trades"]:
                await sleep_until(t["push_us"])
                when = ts_dt(t["ts_us"])
                amount = Decimal(2 ** t["amount_exp"]) / Decimal(10 ** 8)
                if case["impl"] == "bitstamp":
                    micro = (vclock.EPOCH_TS * US) + base_us + t["ts_us"]
                    tr = bstrades.Trade(pair, {"id": t["amount_exp"], "microtimestamp": str(micro),
                                               "amount_str": str(amount), "price_str": t["price"], "type": 0})
                    await src.on_trade_event(bstrades.TradeEvent(loop.utc_now(), tr))
                else:
                    src.push_trade(when, Decimal(t["price"]), amount)

        async def poller():
            # Look at the queue 2 ms before and 2 ms after every nominal flush instant.
            for w in range(nwin + 1):
                f = (w + 1) * dur * US + int(fd * US)
                for at in (f - 2000, f + 2000):
                    await sleep_until(at)
                    while (ev := src.pop()) is not None:
                        visible.append((now_us(), ev))

        async def main():
            m = asyncio.ensure_future(src.main())
            try:
                await asyncio.gather(feeder(), poller())
            finally:
                m.cancel()
                await asyncio.gather(m, return_exceptions=True)

        loop.max_spins = 60_000
        StepBudget.install()
        StepBudget.reset()
        try:
            loop.run_until_complete(main())
            if StepBudget.exceeded:
                raise vclock.Livelock("RealTimeTradesToBar.main() looped without awaiting (step budget exhausted)")
        except vclock.Livelock as ex:
            # the aggregator keeps the event loop busy without ever sleeping: virtual time cannot advance (in real
            # time it would spin a core and emit nothing on schedule)
            res.evaluations += 1
            res.violate(Violation("C19", "aggregator_busy_loop",
                                  f"duration={dur}s flush_delay={fd}: RealTimeTradesToBar.main() stopped yielding to the clock ({ex})",
                                  scenario=case))
            return

    res.evaluations += 1
    res.count("trade_streams")
    res.count("trades_pushed", len(case["trades"]))
    res.count("bars_checked", len(visible))

    def bad(kind: str, msg: str, mechanism: str = "") -> None:
        res.violate(Violation("C19", kind, f"duration={dur}s flush_delay={fd} skip_first={case['skip_first_bar']} "
                                           f"impl={case['impl']}: {msg}", scenario=case, mechanism=mechanism))

    def tail(t: dict) -> bool:
        # classifier for the known mechanism: the trade lies in the last millisecond of its window
        return t["ts_us"] % (dur * US) >= dur * US - 1000

    # Reference: which trades must be counted (in order and on time), per window.
    must: Dict[int, List[dict]] = {}
    may: Dict[int, List[dict]] = {}
    max_acc = None
    for t in case["trades"]:
        w = t["ts_us"] // (dur * US)
        flush_us = (w + 1) * dur * US + int(fd * US)
        on_time = t["push_us"] < flush_us - 2000
        in_order = max_acc is None or t["ts_us"] >= max_acc
        if on_time and in_order:
            must.setdefault(w, []).append(t)
            max_acc = t["ts_us"]
        else:
            may.setdefault(w, []).append(t)
    first_w = 0
    exempt = {first_w} if case["skip_first_bar"] else set()

    seen_windows: List[int] = []
    for seen_us, ev in visible:
        b = ev.bar
        begin_us = int((b.datetime - vclock.EPOCH) / datetime.timedelta(microseconds=1)) - base_us
        w, rem = divmod(begin_us, dur * US)
        if rem != 0:
            bad("bar_begin_misaligned", f"bar.datetime {b.datetime} is not a window start")
            continue
        seen_windows.append(w)
        when_us = int((ev.when - vclock.EPOCH) / datetime.timedelta(microseconds=1)) - base_us
        if not ((w + 1) * dur * US - 1000 <= when_us < (w + 1) * dur * US):
            bad("bar_event_time", f"event time {ev.when} is not within the last millisecond of window {w}")
        if not (b.low <= b.open <= b.high and b.low <= b.close <= b.high):
            bad("bar_ohlc_invariant", f"window {w}: {b.open} {b.high} {b.low} {b.close}")
        # emission instant: not before the end of the window, and by the nominal flush instant (+2 ms)
        f = (w + 1) * dur * US + int(fd * US)
        if seen_us < f - 2000 - 1 and seen_us < (w + 1) * dur * US - 2000:
            bad("bar_emitted_early", f"bar of window {w} visible at {seen_us}us, before its window ended")
        if seen_us > f + 2000 + 1:
            bad("bar_emitted_late", f"bar of window {w} became visible at {seen_us}us, nominal flush {f}us")
        # decode the counted trades from the volume
        units = b.volume * Decimal(10 ** 8)
        if units != units.to_integral_value():
            bad("bar_volume_not_sum", f"window {w}: volume {b.volume} is not a sum of pushed amounts")
            continue
        mask = int(units)
        counted = [t for t in case["trades"] if mask >> t["amount_exp"] & 1]
        if sum(2 ** t["amount_exp"] for t in counted) != mask:
            bad("bar_volume_not_sum", f"window {w}: volume {b.volume} contains an amount that was never pushed")
            continue
        for t in counted:
            if t["ts_us"] // (dur * US) != w:
                bad("trade_in_wrong_window", f"trade at {t['ts_us']}us counted in window {w}")
        if w not in exempt:
            missing = [t for t in must.get(w, []) if not (mask >> t["amount_exp"] & 1)]
            if missing:
                t = missing[0]
                nt = [t for t in missing if not tail(t)]
                t = (nt or missing)[0]
                bad("trade_lost", f"in-order trade at offset {t['ts_us'] - w * dur * US}us of window {w} "
                                  f"(pushed {f - t['push_us']}us before the nominal flush) is in no bar",
                    mechanism="" if nt else "window_tail_trade_dropped")
        if counted:
            # first / last are meant in time: an aggregator that only ever accepts in-order trades has push order ==
            # time order; one that lets an older trade in after a newer one gets open/close wrong.
            by_time = sorted(counted, key=lambda t: t["ts_us"])   # stable: ties keep push order
            prices = [Decimal(t["price"]) for t in by_time]
            exp = (prices[0], max(prices), min(prices), prices[-1])
            if (b.open, b.high, b.low, b.close) != exp:
                bad("bar_ohlc_mismatch", f"window {w}: got {(b.open, b.high, b.low, b.close)} expected {exp} "
                                         f"(trades in push order: {[(t['ts_us'], t['price']) for t in counted]})")
    if any(a >= b for a, b in zip(seen_windows, seen_windows[1:])):
        bad("bars_out_of_order", f"bars emitted for windows {seen_windows}")
    for w, ts in must.items():
        if w in exempt or w > nwin - 1:
            continue
        if w not in seen_windows:
            bad("bar_missing", f"window {w} has {len(ts)} in-order trades but no bar was emitted",
                mechanism="window_tail_trade_dropped" if all(tail(t) for t in ts) else "")
    res.count("trades_must_count", sum(len(v) for v in must.values()))
    res.count("trades_optional", sum(len(v) for v in may.values()))
    res.count("aggregator_errors_reported", len(errors))
    edge = sum(1 for t in case["trades"] if t["cls"] in ("first_us", "last_us", "last_ms", "first_ms"))
    if edge >= 1 and len([w for w in must if must[w]]) >= 2:
        shape = sorted((t["ts_us"] // (dur * US), t["cls"], t["mode"]) for t in case["trades"])
        res.nontrivial.add(common.digest(["trades", dur, fd, case["skip_first_bar"], case["impl"],
                                          case["start_off_us"] == 0, shape]))
    res.sample({"part": "trades", "duration": dur, "flush_delay": fd, "skip_first_bar": case["skip_first_bar"],
                "impl": case["impl"], "trades": [(t["ts_us"], t["push_us"], t["cls"], t["mode"]) for t in case["trades"][:6]],
                "bars_for_windows": seen_windows})


# ---------------------------------------------------------------------------------------------

# ---------------------------------------------------------------------------------------------
# exchange level: several subscribers to the bars of one pair on a Bitstamp exchange fed by a (fake) websocket
# ---------------------------------------------------------------------------------------------

def gen_exchange_case(r) -> Dict[str, Any]:
    dur = r.choice([1, 2, 5])
    subs = [{"skip_first_bar": r.random() < 0.5, "flush_delay": r.choice([0.1, 0.1, 0.5])} for _ in range(r.choice([2, 2, 3]))]
    if r.random() < 0.6:
        subs[1]["skip_first_bar"] = not subs[0]["skip_first_bar"]
        subs[1]["flush_delay"] = subs[0]["flush_delay"]
    trades = []
    for w in range(3):
        for _ in range(r.randint(1, 3)):
            trades.append({"win": w, "off": round(r.uniform(0.15, 0.8) * dur, 3), "exp": len(trades),
                           "price": str(r.randint(90, 110))})
    trades.sort(key=lambda t: (t["win"], t["off"]))
    for w in range(3):
        # now and then the first trade of a window carries no amount (its price still opens the bar)
        first = next((t for t in trades if t["win"] == w), None)
        if first is not None and len([t for t in trades if t["win"] == w]) > 1 and r.random() < 0.35:
            first["zero"] = True
            first["price"] = str(r.choice([50, 150]))
    return {"part": "exchange", "duration": dur, "subs": subs, "trades": trades, "start_off": round(r.uniform(0.02, 0.1) * dur, 3)}


def run_exchange_case(case: Dict[str, Any], res: ShardResult) -> None:
    """Every subscriber gets the bars its own options describe: with skip_first_bar=False a bar for the window in which
    the subscription started, with skip_first_bar=True none; from the next window on all of them get the same bars."""
    from vf import vclock
    from vf.wsfault import fake
    from basana.core import dispatcher
    from basana.core.pair import Pair
    from basana.external.bitstamp import exchange as bsx
    dur = case["duration"]
    got: Dict[int, List[tuple]] = {i: [] for i in range(len(case["subs"]))}
    with vclock.virtual_time(start_ns=int(case["start_off"] * 1e9)) as loop:
        d = dispatcher.realtime_dispatcher()
        peer = fake.Peer(loop, loop.time())
        ov = {"api": {"http": {"base_url": "http://x/"}, "websockets": {"base_url": "ws://x/"}}}
        ex = bsx.Exchange(d, "k", "s", session=fake.FakeSession(peer), config_overrides=ov)
        pair = Pair("BTC", "USD")

        def mk(i):
            async def h(ev):
                b = ev.bar
                got[i].append((int(round((b.datetime - vclock.EPOCH).total_seconds() * 1000)), b.open, b.high, b.low, b.close, b.volume))
            return h
        for i, sub in enumerate(case["subs"]):
            ex.subscribe_to_bar_events(pair, dur, mk(i), skip_first_bar=sub["skip_first_bar"], flush_delay=sub["flush_delay"])

        def on_frame(ws, msg):
            if msg.get("event") == "bts:subscribe":
                ws.push_json({"event": "bts:subscription_succeeded", "channel": msg["data"]["channel"], "data": {}})
        peer.on_frame = on_frame

        async def feeder():
            for t in case["trades"]:
                at = t["win"] * dur + t["off"]
                delay = at - (loop.now_ns() / 1e9)
                if delay > 0:
                    await asyncio.sleep(delay)
                ws = next((c for c in reversed(peer.conns) if not c.closed), None)
                if ws is None:
                    continue
                micro = int(vclock.EPOCH_TS * US) + int(round(at * US))
                ws.push_json({"event": "trade", "channel": "live_trades_btcusd",
                              "data": {"id": t["exp"], "microtimestamp": str(micro),
                                       "amount_str": "0" if t.get("zero") else str(Decimal(2 ** t["exp"]) / Decimal(10 ** 8)),
                                       "price_str": t["price"], "type": 0, "buy_order_id": 1, "sell_order_id": 2}})
            await asyncio.sleep(4 * dur + 2 - loop.now_ns() / 1e9)
            d.stop()

        async def main():
            await asyncio.gather(d.run(stop_signals=[]), feeder())
        try:
            loop.run_until_complete(asyncio.wait_for(main(), timeout=100 * dur))
        except Exception as ex_:  # noqa
            res.violate(Violation("C19", "exchange_run_failed", f"{type(ex_).__name__}: {ex_}", scenario=case))
            return
    res.evaluations += 1
    res.count("exchange_level_cases")
    # reference bars per window from the trades (amounts are distinct powers of two)
    ref = {}
    for w in range(3):
        ts = [t for t in case["trades"] if t["win"] == w]
        if ts:
            prices = [Decimal(t["price"]) for t in ts]
            ref[w * dur * 1000] = (prices[0], max(prices), min(prices), prices[-1],
                                   sum((Decimal(2 ** t["exp"]) / Decimal(10 ** 8) for t in ts if not t.get("zero")), Decimal(0)))
    for i, sub in enumerate(case["subs"]):
        bars = {b[0]: b[1:] for b in got[i]}
        res.count("exchange_level_bars", len(bars))
        for w_ms, want in ref.items():
            first = w_ms == 0
            have = bars.get(w_ms)
            if first and sub["skip_first_bar"]:
                if have is not None:
                    res.violate(Violation("C19", "first_bar_not_skipped",
                                          f"subscriber {i} asked to skip the first (incomplete) bar but received {have} "
                                          f"(subscriptions {case['subs']})", scenario=case))
                continue
            if have is None:
                res.violate(Violation("C19", "bar_missing",
                                      f"exchange level: subscriber {i} ({sub}) got no bar for the window starting at {w_ms} ms "
                                      f"although {want[4]} was traded in it (subscriptions {case['subs']})", scenario=case))
            elif tuple(have) != tuple(want):
                res.violate(Violation("C19", "bar_ohlc_mismatch",
                                      f"exchange level: subscriber {i} window {w_ms} ms: got {have}, expected {want}", scenario=case))
    if len({s_["skip_first_bar"] for s_ in case["subs"]}) == 2:
        res.nontrivial.add(common.digest(["exchange", dur, [(s_["skip_first_bar"], s_["flush_delay"]) for s_ in case["subs"]],
                                          [t["win"] for t in case["trades"]]]))


def run_shard(ctx: Context, res: ShardResult) -> None:
    tmpdir = tempfile.mkdtemp(prefix="vf-c19-")
    try:
        for k, i in enumerate(ctx.case_ids()):
            if ctx.out_of_time():
                res.errors.append("ran out of time")
                break
            if k % 25 == 7:
                run_exchange_case(gen_exchange_case(ctx.rng("exchange", i)), res)
            elif k % 2 == 0:
                run_csv_case(gen_csv_case(ctx.rng("csv", i)), res, tmpdir)
            else:
                run_trade_case(gen_trade_case(ctx.rng("trades", i)), res)
    finally:
        shutil.rmtree(tmpdir, ignore_errors=True)


def replay(prop: str, scenario: Dict[str, Any], res: ShardResult) -> None:
    if scenario["part"] == "csv":
        tmpdir = tempfile.mkdtemp(prefix="vf-c19-")
        try:
            run_csv_case(scenario, res, tmpdir)
        finally:
            shutil.rmtree(tmpdir, ignore_errors=True)
    elif scenario["part"] == "exchange":
        run_exchange_case(scenario, res)
    else:
        run_trade_case(scenario, res)


def finalize(prop: str, tier: str, merged: ShardResult) -> Dict[str, Any]:
    inc = []
    c = merged.counters
    if c.get("csv_events_checked", 0) < 500:
        inc.append("fewer than 500 CSV events compared")
    if c.get("bars_checked", 0) < 200:
        inc.append("fewer than 200 aggregated bars checked")
    if c.get("trades_must_count", 0) < 500:
        inc.append("fewer than 500 in-order trades observed")
    if c.get("exchange_level_bars", 0) < 20:
        inc.append("fewer than 20 bars observed through Exchange.subscribe_to_bar_events")
    if c.get("csv_invalid_files", 0) < 5:
        inc.append("invalid-OHLC path exercised fewer than 5 times")
    return {"inconclusive": inc}
