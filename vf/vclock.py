"""Virtual-time asyncio loop.

The loop's clock is an integer number of nanoseconds; ``select`` never blocks, it jumps the clock to
the next timer. ``basana.core.dt.utc_now`` and the ``time`` module references of the realtime
modules are replaced by shims reading the same clock (harness-side patching of module attributes,
no repository change), so hour-long timing scenarios are deterministic and take milliseconds.
"""
from __future__ import annotations

import asyncio
import contextlib
import datetime
import time as real_time
from typing import Iterator, List

EPOCH = datetime.datetime(2024, 1, 1, tzinfo=datetime.timezone.utc)
EPOCH_TS = int(EPOCH.timestamp())
NS = 10 ** 9


class Deadlock(RuntimeError):
    pass


class Livelock(RuntimeError):
    pass


class VirtualTimeLoop(asyncio.SelectorEventLoop):
    def __init__(self, start_ns: int = 0, real_io: bool = False):
        super().__init__()
        self._vt_ns = start_ns
        self.jumps = 0
        self._spins = 0
        self.max_spins = 400_000
        self._real_select = self._selector.select
        self._real_io = real_io
        self._selector.select = self._vselect  # type: ignore[method-assign]

    def _vselect(self, timeout=None):
        if self._real_io:
            # Poll real sockets without blocking, then advance the virtual clock if nothing is ready.
            events = self._real_select(0)
            if events:
                return events
        if timeout is not None and timeout <= 0:
            # ready callbacks exist: the loop spins without the clock advancing. A coroutine that never sleeps would
            # freeze virtual time forever; abort the scenario instead (the caller reports it as inconclusive).
            self._spins += 1
            if self._spins > self.max_spins:
                raise Livelock(f"virtual loop made {self._spins} iterations without the clock advancing")
        else:
            self._spins = 0
        if timeout is None:
            if self._real_io:
                return self._real_select(0.001)
            raise Deadlock("virtual loop deadlock: nothing scheduled and nothing ready")
        if timeout > 0:
            # asyncio computes timeout = when - time(); round up to whole ns so that the timer is due.
            self._vt_ns += int(timeout * NS) + 1
            self.jumps += 1
        return []

    def time(self) -> float:
        return self._vt_ns / NS

    # exact helpers -------------------------------------------------------------------------
    def now_ns(self) -> int:
        return self._vt_ns

    def utc_now(self) -> datetime.datetime:
        return EPOCH + datetime.timedelta(microseconds=self._vt_ns // 1000)


class _TimeShim:
    """Stands in for the ``time`` module inside repository modules."""

    def __init__(self, loop: VirtualTimeLoop):
        self._loop = loop

    def time(self) -> float:
        # the wall clock may be stepped (NTP correction, manual change) independently of the monotonic clock
        return EPOCH_TS + self._loop.now_ns() / NS + getattr(self._loop, "wall_offset", 0.0)

    def monotonic(self) -> float:
        return self._loop.now_ns() / NS

    def __getattr__(self, name):
        return getattr(real_time, name)


TIME_MODULES = [
    "basana.core.websockets",
    "basana.core.token_bucket",
    "basana.external.binance.client.base",
    "basana.external.bitstamp.helpers",
]


@contextlib.contextmanager
def virtual_time(start_ns: int = 0, patch_time_modules: bool = True) -> Iterator[VirtualTimeLoop]:
    """Creates a virtual loop, installs it and the clock shims, and undoes everything on exit."""
    import importlib
    import basana.core.dt as bdt

    loop = VirtualTimeLoop(start_ns)
    asyncio.set_event_loop(loop)
    saved: List = [(bdt, "utc_now", bdt.utc_now)]
    bdt.utc_now = loop.utc_now
    if patch_time_modules:
        shim = _TimeShim(loop)
        for name in TIME_MODULES:
            mod = importlib.import_module(name)
            if hasattr(mod, "time"):
                saved.append((mod, "time", mod.time))
                mod.time = shim
    try:
        yield loop
    finally:
        for mod, attr, val in saved:
            setattr(mod, attr, val)
        try:
            pending = [t for t in asyncio.all_tasks(loop) if not t.done()]
            for t in pending:
                t.cancel()
            if pending:
                loop.run_until_complete(asyncio.gather(*pending, return_exceptions=True))
        except Exception:
            pass
        loop.close()
        asyncio.set_event_loop(None)
