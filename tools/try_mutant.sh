#!/bin/bash
# tools/try_mutant.sh <patch.diff> <prop> [<prop>...]  - applies a seeded change to /repo, runs the quick checks, reverts.
patch="$1"; shift
cd /repo || exit 2
if ! git diff --quiet; then echo "/repo has uncommitted changes"; exit 2; fi
git apply "$patch" || { echo "patch does not apply"; exit 2; }
trap 'git -C /repo checkout -- . ; git -C /repo status --short | head -3' EXIT
cd /verif
for p in "$@"; do
  out=$(VERIF_TIER="${TIER:-quick}" ./check "$p" --tier "${TIER:-quick}" 2>&1); rc=$?
  echo "== $p rc=$rc"; echo "$out" | grep -E "VIOLATION|kind=|HELD|INCONCLUSIVE|FAILED|KNOWN" | head -${LINES_MAX:-6}
done
