#!/bin/bash
# tools/eval_mutant.sh <patch.diff> <label> <prop> [<prop>...]
# Runs the quick checks against a scratch worktree of /repo HEAD carrying the seeded change (VF_REPO), in parallel-safe
# fashion; prints the verdict lines. Evidence files written during such a run are restored afterwards.
patch="$1"; label="$2"; shift 2
wt="/tmp/wt/eval-$label-$$"
git -C /repo worktree add --detach "$wt" HEAD -q || exit 2
trap 'git -C /repo worktree remove --force "$wt" 2>/dev/null; rm -rf "$wt"' EXIT
git -C "$wt" apply "$patch" || { echo "$label: patch does not apply"; exit 2; }
cd /verif
for p in "$@"; do
  out=$(VF_REPO="$wt" VF_EVIDENCE_DIR="/tmp/wt/ev-$label-$$" ./check "$p" --tier "${TIER:-quick}" 2>&1); rc=$?
  rm -rf "/tmp/wt/ev-$label-$$"
  echo "== $label $p rc=$rc"; echo "$out" | grep -E "VIOLATION|kind=|HELD|INCONCLUSIVE|FAILED|KNOWN" | head -${LINES_MAX:-5}
done
