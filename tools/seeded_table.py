#!/venv/bin/python
"""tools/seeded_table.py <round letter>... - prints the DESIGN.md section 11 rows (markdown) of the seeded changes of the
given rounds from seeded/<id>/meta.json (summary + the kinds recorded by tools/record_detection.py)."""
import json, pathlib, re, sys

ROOT = pathlib.Path("/verif/seeded")
NOTES = {
    # round c
    "C02-c2": "filtered loan listings compared with the unfiltered one",
    "C03-c1": "read-only exchange calls inside handlers of non-suspending strategies",
    "C03-c2": "multi-pair trading signals followed in get_pairs() order (hash-seed differential)",
    "C04-c3": "bars without volume under the infinite-liquidity model",
    "C05-c3": "bars longer than their spacing (bar_hours)",
    "C06-c3": "pair-specific precisions differing from the symbol's",
    "C07-c2": "directed micro scenario: repayment blocked by another order's hold",
    "C08-c1": "all-or-nothing rule after an insufficient first bar; zero-volume bar in micro_c08",
    "C08-c3": "'fits => filled' rule extended to triggered stop orders",
    "C10-c3": "accounts opened with a debt (negative initial balance)",
    "C11-c2": "negative interest rates",
    "C11-c3": "second loan of one request failing for a reason other than funds; C11 kind for loans left open",
    "C12-c1": "exceptions that carry no arguments",
    "C12-c2": "C12 scenarios schedule jobs (also for past times) from handlers",
    "C14-c2": "idle handlers that raise",
    "C16-c2": "credentials rotated inside one process",
    "C16-c3": "wall clock stepped independently of the monotonic clock",
    "C18-c1": "client tearing down a healthy connection after a message counts as message loss",
    "C18-c3": "kline streams 1m / 1M / 1h",
    "C20-c3": "failing requests (HTTP error, timeout, disconnect) are still charged",
    # round d
    "C02-d2": "not visible to C02 at usual precisions; reported by C06 and C08",
    "C04-d2": "base-asset fee scheme in the ample / micro_c04 classes",
    "C05-d1": "polling strategies that never subscribe to order events",
    "C06-d1": "auto_borrow requested at the acceptance boundary without anything to lend",
    "C06-d2": "price monitor: the exchange's quote is the close of the pair's last bar",
    "C07-d1": "an internal error (KeyError, ...) escaping from the public API is a violation",
    "C09-d1": "two pairs sharing a quote symbol with different quote precisions",
    "C10-d1": "price monitor: the exchange's quote is the close of the pair's last bar",
    "C12-d2": "sub-second event times",
    "C12-d3": "handlers without __qualname__ (functools.partial, callable objects)",
    "C13-d3": "jobs ending with a CancelledError of their own making",
    "C14-d1": "handlers / jobs without __qualname__",
    "C14-d2": "a handler chains its own log record factory during the run",
    "C14-d3": "late stop (handler failure under stop-on-error) while producers wind down after a producer failure",
    "C15-d3": "several sources sharing one producer",
    "C16-d1": "peer drops the connection after receiving the request: every transmission of a call is judged",
    "C16-d3": "two accounts used side by side in one process",
    "C18-d1": "all user-data streams of a connection expire in the same instant",
    "C19-d2": "independent period table including the case-sensitive 1M",
    "C20-d2": "concurrent waiters on the limiter's own wait()",
    "C20-d3": "one limiter for the whole Binance client (public, spot, cross, isolated)",
    # round e
    "C03-e2": "loans variant: several equal short-sale loans of different age, one affordable repayment",
    "C03-e3": "one lending-strategy object handed to every run of a sweep; a requirement that bites",
    "C04-e1": "a second, coarser feed of the same pair closing at the same instants",
    "C04-e3": "bar prices finer than the pair's price grid (sub-tick)",
    "C06-e1": "a rejected request must not leave a live order (C06 kind)",
    "C06-e2": "'no order open' also judged by the get_open_orders() listing",
    "C07-e1": "micro_c07: interest charged in a third symbol the account does not hold",
    "C10-e2": "loans from jobs scheduled at exactly a bar's time",
    "C10-e3": "market quoted both ways (USD/BTC next to BTC/USD)",
    "C12-e1": "handlers suspended for seconds of virtual time",
    "C12-e3": "producers that queue their events when main() starts",
    "C13-e2": "plain-callable jobs returning futures / objects with __await__",
    "C14-e1": "stop() requested before run() and again while running",
    "C14-e2": "run() called again during and after a run",
    "C15-e2": "catch-all handlers (front-running and regular)",
    "C15-e3": "two sources built from one shared list of initial events",
    "C16-e1": "process-wide random generator re-seeded between requests",
    "C18-e1": "caller-supplied session must stay usable; reconnection-progress oracle",
    "C18-e2": "client started without channels, first channels registered while connected",
    "C18-e3": "frames waiting right after the handshake; reconnection-progress oracle",
    "C19-e3": "exchange-level bar subscriptions with different options over a fake websocket",
    "C20-e1": "monitoring reads of the tokens property between requests",
    "C20-e3": "waiters that give up (cancelled) and retry",
    # round f
    "C01-f1": "second feed of the same pair also under the volume-share model with fees",
    "C03-f2": "reported by C19 (a CSV source object reused after a run that stopped early)",
    "C05-f1": "order amount off the base grid and numerically equal to the order's price",
    "C05-f2": "handlers schedule jobs for 'now' / the past that cancel orders",
    "C06-f2": "reported by C09 (minimum fee charged per fill)",
    "C07-f1": "micro_c07 repays closed (rolled-back) loans; internal errors from the API are violations",
    "C07-f3": "two explicit loans of exactly the same size in the blocked-repayment micro scenario",
    "C08-f3": "the same bar source registered twice",
    "C09-f1": "part of the runs with the library's loggers at DEBUG level",
    "C09-f3": "decoy exchange shares the fee-scheme object and has coarser precisions",
    "C10-f1": "lending strategy subclass answering get_conditions() itself over a lenient base configuration",
    "C10-f2": "thin LendingStrategy delegating to a MarginLoans it owns",
    "C10-f3": "'everything borrowed' also counts the loans the exchange lists as open",
    "C11-f3": "lending conditions replaced mid-run (open loans keep theirs)",
    "C12-f2": "plain handlers returning awaitable objects",
    "C13-f3": "a job must be over before an event with a later time starts",
    "C14-f2": "application's own SIGTERM / SIGINT handlers must survive run(stop_signals=[])",
    "C15-f3": "idle handlers of one dispatcher never run on another dispatcher of the process",
    "C16-f1": "session whose base URL carries a path prefix",
    "C16-f3": "session with the library's loggers at DEBUG level",
    "C18-f1": "websocket tokens expire after 60 s in the fake peer; long gaps before reconnections",
    "C19-f1": "zero-amount leading trades (exchange-level case)",
    "C19-f2": "field separators handed over through dict_reader_kwargs",
    "C19-f3": "Yahoo row parser's sanitize switch",
    "C20-f1": "fractional-second and multi-day periods",
    "C20-f2": "an order-book poller built with the same limiter",
}


def short(text: str, n: int = 170) -> str:
    text = re.sub(r"\s+", " ", text).strip()
    if len(text) <= n:
        return text
    cut = text[:n].rsplit(" ", 1)[0]
    return cut.rstrip(",;:") + " ..."


for rnd in sys.argv[1:]:
    for d in sorted(ROOT.glob(f"C??-{rnd}?")):
        m = json.loads((d / "meta.json").read_text())
        vr = m.get("verif_result", {})
        caught = []
        for prop, r in vr.get("checks", {}).items():
            if r.get("exit") == 1:
                caught.append(f"{prop} " + ", ".join(r.get("kinds", [])[:3]))
        c = "; ".join(caught) if caught else "**not detected**"
        note = NOTES.get(d.name)
        if note:
            c += f" - strengthened: {note}"
        print(f"| {d.name} | {short(m.get('summary', '')).replace('|', '/')} | {c} |")
