#!/venv/bin/python
"""tools/record_detection.py [ids...] - runs, for every seeded change under /verif/seeded/, the quick check of the
property it breaks against a scratch worktree of /repo HEAD carrying the change (tools/eval_mutant.sh) and records the
outcome in seeded/<id>/meta.json under "verif_result". Extra checks can be listed in meta.json "also_run"."""
import json, pathlib, re, subprocess, sys, concurrent.futures as cf

ROOT = pathlib.Path("/verif")
ids = sys.argv[1:] or sorted(p.name for p in (ROOT / "seeded").iterdir() if (p / "patch.diff").exists())
head = subprocess.check_output(["git", "-C", "/repo", "rev-parse", "--short", "HEAD"], text=True).strip()


def one(sid: str):
    d = ROOT / "seeded" / sid
    meta = json.loads((d / "meta.json").read_text())
    props = [meta["property"]] + list(meta.get("also_run", []))
    out = subprocess.run([str(ROOT / "tools/eval_mutant.sh"), str(d / "patch.diff"), sid] + props, capture_output=True,
                         text=True, env={**__import__("os").environ, "LINES_MAX": "12"}).stdout
    results = {}
    cur = None
    for line in out.splitlines():
        m = re.match(r"== (\S+) (C\d+) rc=(\d+)", line)
        if m:
            cur = m.group(2)
            results[cur] = {"exit": int(m.group(3)), "kinds": []}
        elif cur and "kind=" in line:
            k = re.search(r"kind=(\S+)", line).group(1)
            if k not in results[cur]["kinds"]:
                results[cur]["kinds"].append(k)
    meta["verif_result"] = {"repo_head": head, "tier": "quick", "seed": 0,
                            "how": "tools/eval_mutant.sh (scratch worktree of /repo HEAD + patch, VF_REPO)",
                            "checks": results,
                            "detected": any(r["exit"] == 1 for r in results.values())}
    (d / "meta.json").write_text(json.dumps(meta, indent=1) + "\n")
    return sid, meta["verif_result"]["detected"], {k: v["kinds"][:3] for k, v in results.items()}


with cf.ThreadPoolExecutor(max_workers=int(__import__("os").environ.get("JOBS", "3"))) as ex:
    for sid, det, kinds in ex.map(one, ids):
        print(f"{sid}: {'DETECTED' if det else 'MISSED'} {kinds}")
