#!/venv/bin/python
"""Prints the prompt given to an independent sub-agent that seeds a property-breaking change (it gets only
the property text and its own scratch worktree, nothing from /verif)."""
import json, sys
pid, wt = sys.argv[1], sys.argv[2]
n = int(sys.argv[3]) if len(sys.argv) > 3 else 3
p = [json.loads(l) for l in open('/verif/properties.jsonl') if json.loads(l)['id'] == pid][0]
import glob
avoid = []
for f in sorted(glob.glob(f'/tmp/wt/{pid}*/mutants/m*/meta.json') + glob.glob(f'/verif/seeded/{pid}-*/meta.json')):
    try:
        sm = json.load(open(f)).get('summary', '')
        if sm and sm not in avoid:
            avoid.append(sm)
    except Exception:
        pass
AVOID = ""
if avoid and '--fresh' not in sys.argv:
    AVOID = ("\nOther people already seeded the following changes for this property; do NOT repeat them or close variants of "
             "them - look for different functions, different clauses of the property and different triggering conditions:\n"
             + "\n".join(f"  - {a}" for a in avoid) + "\n")
HINT = ""
if '--hint' in sys.argv:
    HINT = ("\nThis time, prefer places the earlier changes did not touch: rarely used public entry points and optional "
            "parameters, interactions between two features or configuration options, objects reused or shared across "
            "several runs / clients / accounts, state that survives an error, behaviour at exact boundaries (equal "
            "timestamps, zero amounts, empty collections), and code paths only reached after a specific history of calls.\n")
print(f"""You are testing a verification effort by seeding realistic bugs. You work ONLY inside the git worktree {wt}
(a checkout of the Python project gbeced/basana: an async event-driven algorithmic trading framework with a
backtesting exchange simulator, an event dispatcher and Binance/Bitstamp clients). Do NOT read or write anything
under /verif, /root/.claude, /root/.vp or /repo; do not look for existing verification code. Use
`/venv/bin/python` to run Python; run it with `PYTHONPATH={wt}` and from inside {wt} so that the `basana` package of
the worktree is imported (check `basana.__file__` starts with {wt}). There is no network.

The project is supposed to satisfy this semantic property:

TITLE: {p['title']}
STATEMENT: {p['statement']}
QUANTIFIED OVER: {p['quantifier']['text']}
(Code most relevant to it: {', '.join(p['anchors']['files'])})

Your task: produce {n} DIFFERENT source changes to the `basana/` package (each one independent, each applied on a clean
tree), each of which BREAKS the property above, while the project still imports and the existing test suite still
passes exactly as before. The baseline test command is
  cd {wt} && PYTHONPATH={wt} /venv/bin/python -m pytest -q -p no:cacheprovider -x -q tests 2>&1 | tail -5
IMPORTANT: on the unmodified tree 226 tests pass and 69 fail (the 69 failures are pre-existing: they are tests based on
aioresponses, which is incompatible with the installed aiohttp). A change is acceptable when the set of passing tests is
unchanged: run the suite WITHOUT -x before and after (`... -m pytest -q -p no:cacheprovider tests 2>&1 | tail -3`) and
compare the pass/fail counts (226 passed, 69 failed) - better, compare the list of failing test ids.

{AVOID}{HINT}
Make the changes realistic - the kind of slip a maintainer could make in a refactoring or an "optimisation" - and SUBTLE:
prefer changes that need something specific to manifest (a particular interleaving, a fault at a particular point, a
multi-step sequence of operations, an unusual input or configuration, or two cooperating sites that each look fine
alone) rather than ones that ordinary use would expose at once. Do not just delete a feature; do not add code that
special-cases magic values. Try to make the {n} changes different in kind (different functions / different clauses of
the property).

For each change i = 1..{n} create the directory {wt}/mutants/m<i>/ containing:
  - patch.diff : output of `git diff` for the change (relative to the clean worktree HEAD; must apply with
                 `git apply` on a clean checkout; only files under basana/)
  - demo.py    : a small standalone program (run as `PYTHONPATH=<tree> /venv/bin/python demo.py`) that exits 0 and
                 prints PASS on the unmodified tree, and exits 1 and prints FAIL (with a short explanation of what was
                 observed) on the tree with the change applied. It must use only the public behaviour of basana
                 (plus the standard library) and must finish within 60 seconds.
  - meta.json  : {{"property": "{pid}", "summary": "<one sentence: what the change does>", "needs": "<what is needed
                 for it to manifest>", "files": [...], "tests_before": "<passed/failed counts>", "tests_after": "<counts>"}}
After writing each patch.diff, restore the tree with `git -C {wt} checkout -- .` before starting the next change (never use `git stash`: the stash is shared by all worktrees of the repository and other people are working in sibling worktrees), and
verify at the end, for every change: (1) `git apply` works on the clean tree, (2) the test suite pass/fail set is unchanged
with the change, (3) demo.py prints FAIL with the change and PASS without it. Leave the worktree clean (no modified tracked
files) when you finish; the mutants/ directory stays. Finish with a short report listing the changes and the results of
those three verifications for each.""")
