#!/bin/bash
# tools/run_all.sh <tier> [ids...] - runs the checks one after the other and prints one verdict line each.
tier="${1:-quick}"; shift
ids=("$@"); [ ${#ids[@]} -eq 0 ] && ids=(C01 C02 C03 C04 C05 C06 C07 C08 C09 C10 C11 C12 C13 C14 C15 C16 C17 C18 C19 C20)
here="$(cd "$(dirname "${BASH_SOURCE[0]}")/.." && pwd)"; cd "$here"
worst=0
for p in "${ids[@]}"; do
  out=$(./check "$p" --tier "$tier" 2>&1); rc=$?
  echo "rc=$rc $(echo "$out" | tail -1)"
  if [ $rc -ne 0 ]; then
    echo "$out" | grep -E "VIOLATION|kind=|INCONCLUSIVE|KNOWN" | head -8
    [ $rc -gt $worst ] && worst=$rc
  fi
done
exit $worst
