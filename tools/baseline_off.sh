#!/bin/bash
# Runs the repository's baseline test command with the hook guard OFF and compares the passing set with
# /root/.vp/BASELINE.json (226 stable passes). Exit 0 iff every baseline test still passes.
unset BASANA_VERIF
out="$(mktemp -d)"
trap 'rm -rf "$out"' EXIT
cd /repo && /venv/bin/python -m pytest -ra -q -p no:cacheprovider --timeout=900 --continue-on-collection-errors \
    --junitxml="$out/junit.xml" >"$out/log" 2>&1
tail -n 3 "$out/log"
/venv/bin/python - "$out/junit.xml" <<'PY'
import json, sys, xml.etree.ElementTree as ET
base = set(json.load(open("/root/.vp/BASELINE.json"))["stable_pass"])
passed, failed = set(), set()
for tc in ET.parse(sys.argv[1]).getroot().iter("testcase"):
    tid = (tc.get("classname") or "") + "::" + (tc.get("name") or "")
    if tc.find("failure") is not None or tc.find("error") is not None:
        failed.add(tid)
    elif tc.find("skipped") is None:
        passed.add(tid)
passed -= failed
missing = sorted(base - passed)
print(f"baseline: {len(base)} expected, {len(base & passed)} passing, {len(missing)} missing")
for m in missing[:20]:
    print("MISSING", m)
sys.exit(1 if missing else 0)
PY
