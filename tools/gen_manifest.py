#!/venv/bin/python
"""Regenerates /verif/MANIFEST.json from the table below (keeps the file valid and in one place)."""
import json
import pathlib
import sys

ROOT = pathlib.Path(__file__).resolve().parent.parent

COMMON_NOTE = ("Runtime monitoring decides only the executions actually produced: 'held' means no monitor fired on the "
               "generated histories / schedules / fault scripts listed in the evidence file; paths the workload never "
               "drives are not covered. Trusted: CPython 3.12, asyncio, the harness' own reference models.")

# property -> dict(engine, level, text, technique, note, design_ref)
CHECKS = {
    "C20": dict(
        engine="bucket", level="exploration", design_ref="5/C20",
        technique="runtime monitoring: return values of the real consume() under a substituted clock checked online "
                  "against a sequential reference bucket and a sliding-window bound; real REST clients over an "
                  "in-memory transport under a virtual-time event loop",
        text="Thousands of generated arrival sequences (bursts, idle gaps, overload, just-after-refill) drive the real "
             "limiter; every returned wait is compared with a reference bucket (two-sided) and the window bound is "
             "checked over all windows. Exploration is the right level: the state is two floats and the input space "
             "is sampled densely, but not enumerated.",
        note="Callers are assumed to wait exactly the returned time. " + COMMON_NOTE),
}

CHECKS["C19"] = dict(
    engine="feeds", level="exploration", design_ref="5/C19",
    technique="runtime monitoring: generated CSV files read through the real bar sources and compared row by row "
              "with a reference; the real trade aggregator run under a virtual-time loop with uniquely identifiable "
              "trades (power-of-two amounts) and an offline window-membership / OHLC / emission-time checker",
    text="Thousands of generated files (6 encodings/BOMs, row orders, zero-volume and invalid rows, long decimals, "
         "all periods of the three source classes) and trade streams (window edges at microsecond resolution, late, "
         "skewed and out-of-order trades, empty windows, 1 s - 1 h bars). Unique amounts make every bar's content "
         "unambiguous. Exploration: the input space is unbounded and sampled.",
    note="On-time / late is defined with a 2 ms margin around the nominal flush instant; zero-volume rows are "
         "don't-care. " + COMMON_NOTE)

NOT_YET = {}


def main() -> int:
    props = [json.loads(line) for line in (ROOT / "properties.jsonl").read_text().splitlines() if line.strip()]
    ids = [p["id"] for p in props]
    checks = []
    for pid in ids:
        c = CHECKS.get(pid)
        if not c:
            continue
        checks.append({
            "property_id": pid,
            "quick_cmd": f"./check {pid} --tier quick",
            "thorough_cmd": f"./check {pid} --tier thorough",
            "evidence_file": f"/verif/evidence/{pid}.json",
            "replay_cmd_template": f"./check {pid} --replay {{path}}",
            "engine": c["engine"],
            "level_claimed": {"category": c["level"], "text": c["text"], "design_ref": "DESIGN.md section " + c["design_ref"]},
            "level_note": c["note"],
            "technique": c["technique"],
        })
    na = [{"property_id": pid, "reason": NOT_YET.get(pid, "check not built yet in this round (planned, see DESIGN.md); "
                                                      "the technique applies")}
          for pid in ids if pid not in CHECKS]
    engines = {}
    for pid, c in CHECKS.items():
        engines.setdefault(c["engine"], []).append(pid)
    manifest = {
        "version": 1,
        "setup_cmd": "./setup.sh",
        "hooks": {
            "guard": "BASANA_VERIF",
            "enable": "checks export BASANA_VERIF=1 for their worker processes; the repository is pure Python and is "
                      "imported from /repo's working tree (editable install), so there is no build step. No hook "
                      "commit exists: every observation point is reachable from outside.",
            "baseline_off_cmd": "./tools/baseline_off.sh",
            "source_commits": [],
            "add_only": True,
        },
        "engines": [
            {"name": name, "path": f"/verif/vf/{name}", "serves_properties": sorted(pids),
             "kind_free_text": ENGINE_TEXT.get(name, "")}
            for name, pids in sorted(engines.items())
        ],
        "checks": checks,
        "not_applicable": na,
        "notes": "One entry point: ./check <ID> [--tier quick|thorough] [--replay FILE]. Exit 0 held, 1 violation "
                 "(VIOLATION line + replay file), 2 inconclusive (a deciding monitor was never reached or a worker hit "
                 "the watchdog). Known findings: /verif/known_findings.json (read-only at run time).",
    }
    (ROOT / "MANIFEST.json").write_text(json.dumps(manifest, indent=1) + "\n")
    print(f"MANIFEST.json: {len(checks)} checks, {len(na)} not_applicable")
    return 0


ENGINE_TEXT = {
    "bucket": "real TokenBucketLimiter under a substituted clock + reference bucket monitor",
    "feeds": "generated CSV files / trade streams through the real sources; row-by-row and window-membership references",
    "dispx": "generated dispatcher scenarios (sources, handlers with suspension points, jobs, faults) with trace "
             "recording and offline trace checkers; realtime dispatcher under a virtual-time loop",
    "exsim": "random and directed backtests on the real exchange with a recording proxy, snapshots after every call "
             "and event, shadow ledger / holds / reference formulas",
    "wire": "real REST clients against an aiohttp loopback server that verifies signatures and parameters on the "
            "received bytes",
    "wsfault": "real websocket clients against an in-memory scripted peer injecting faults under virtual time",
}

if __name__ == "__main__":
    sys.exit(main())
