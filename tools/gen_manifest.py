#!/venv/bin/python
"""Regenerates /verif/MANIFEST.json from the table below (keeps the file valid and in one place)."""
import json
import pathlib
import sys

ROOT = pathlib.Path(__file__).resolve().parent.parent

COMMON_NOTE = ("Runtime monitoring decides only the executions actually produced: 'held' means no monitor fired on the "
               "generated histories / schedules / fault scripts listed in the evidence file; paths the workload never "
               "drives are not covered. Trusted: CPython 3.12, asyncio, the harness' own reference models.")

# property -> dict(engine, level, text, technique, note, design_ref)
CHECKS = {
    "C20": dict(
        engine="bucket", level="exploration", design_ref="5/C20",
        technique="runtime monitoring: return values of the real consume() under a substituted clock checked online "
                  "against a sequential reference bucket and a sliding-window bound; real REST clients over an "
                  "in-memory transport under a virtual-time event loop",
        text="Thousands of generated arrival sequences (bursts, idle gaps, overload, just-after-refill) drive the real "
             "limiter; every returned wait is compared with a reference bucket (two-sided) and the window bound is "
             "checked over all windows. Exploration is the right level: the state is two floats and the input space "
             "is sampled densely, but not enumerated.",
        note="Callers are assumed to wait exactly the returned time. " + COMMON_NOTE),
}

CHECKS["C19"] = dict(
    engine="feeds", level="exploration", design_ref="5/C19",
    technique="runtime monitoring: generated CSV files read through the real bar sources and compared row by row "
              "with a reference; the real trade aggregator run under a virtual-time loop with uniquely identifiable "
              "trades (power-of-two amounts) and an offline window-membership / OHLC / emission-time checker",
    text="Thousands of generated files (6 encodings/BOMs, row orders, zero-volume and invalid rows, long decimals, "
         "all periods of the three source classes) and trade streams (window edges at microsecond resolution, late, "
         "skewed and out-of-order trades, empty windows, 1 s - 1 h bars). Unique amounts make every bar's content "
         "unambiguous. Exploration: the input space is unbounded and sampled.",
    note="On-time / late is defined with a 2 ms margin around the nominal flush instant; zero-volume rows are "
         "don't-care. " + COMMON_NOTE)

_EXSIM_TECH = ("runtime monitoring: generated backtests on the real exchange behind a recording proxy; snapshots of all "
               "balances/orders/loans before and after every API call and after every dispatched event; ")
_EXSIM_NOTE = ("Every traded symbol has its precision configured, initial balances on the grid (negative ones - an "
               "account opened with a debt - included), strategy uses only the public async API. " + COMMON_NOTE)
CHECKS["C01"] = dict(engine="exsim", level="exploration", design_ref="3/C01",
    technique=_EXSIM_TECH + "shadow ledger (initial + fills - fees - paid interest) compared on every snapshot",
    text="Hundreds (quick) to tens of thousands (thorough) of random and directed histories; the conservation equation "
         "needs no expected value, so it is evaluated after every call and event. Exploration: histories are sampled.",
    note=_EXSIM_NOTE)
CHECKS["C02"] = dict(engine="exsim", level="exploration", design_ref="3/C02",
    technique=_EXSIM_TECH + "sign and borrowed==open-principal checks on every snapshot plus icontract post-condition "
              "on every internal AccountBalances.update",
    text="Solvency invariants are checked at every quiescent point and, through an icontract post-condition applied "
         "from the harness, after every internal balance update (mid-operation states included); a fill paid with "
         "funds reserved for another order is caught by a one-sided reservation oracle that also works from polled "
         "state alone.",
    note="Open known finding opening_debt_has_no_loan (known_findings.json): for an account opened with a negative "
         "balance the check prints a KNOWN-FINDING line and demands borrowed == opening debt + open principal. "
         + _EXSIM_NOTE)
CHECKS["C04"] = dict(engine="exsim", level="exploration", design_ref="3/C04",
    technique=_EXSIM_TECH + "per-fill price/trigger oracle against the bar with the fill's timestamp; offline "
              "completeness checker; exhaustive micro-scenarios over all 604 weak orderings of O/H/L/C/limit/stop "
              "that form a valid bar x 4 order kinds x 2 sides (both tiers)",
    text="Every fill observed through order events is checked against its bar (price bounds per order type, trigger "
         "rules); both tiers additionally enumerate all weak orderings of the six prices for every order kind and "
         "side with infinite liquidity and ample funds, where completeness is decidable.",
    note=_EXSIM_NOTE + " Tolerance: half a quote grid unit (one rounding).")
CHECKS["C05"] = dict(engine="exsim", level="exploration", design_ref="3/C05",
    technique=_EXSIM_TECH + "per-order monotone state machine over polled states, listing == shadow set for every "
              "filter, offline comparison of the event sequence with the polled state sequence",
    text="Polled order states and order events are two independent observations of the same lifecycle; they must agree "
         "exactly, closures need a legitimate cause, and listings are compared with a shadow set on histories long "
         "enough to re-index the open list many times.",
    note=_EXSIM_NOTE)
CHECKS["C06"] = dict(engine="exsim", level="exploration", design_ref="3/C06",
    technique=_EXSIM_TECH + "shadow reservation per open order (installed at acceptance, shrunk by observed fills) "
              "summed and compared with Balance.hold; independent reservation formula; boundary replays (exactly R "
              "accepted, R - one unit rejected)",
    text="Holds are compared with the sum of shadow reservations whenever the event stream has caught up with the "
         "polled state; every closing path under every lending strategy is driven; boundary acceptance is decided by "
         "re-running the same request with exactly / one unit less than the reservation.",
    note=_EXSIM_NOTE + " Reservations whose rounded notional is zero are don't-care.")
CHECKS["C07"] = dict(engine="exsim", level="exploration", design_ref="3/C07",
    technique=_EXSIM_TECH + "full-state equality around every raising call, rejections classified by origin",
    text="Every rejected request of every history is bracketed by two snapshots that must be equal (modulo loans "
         "created and cancelled inside a rejected auto-borrow). Rejections come from the workload (validation, hold, "
         "borrowing, margin rule, repayment, cancel), not from synthetic failpoints.",
    note=_EXSIM_NOTE)
CHECKS["C08"] = dict(engine="exsim", level="exploration", design_ref="3/C08",
    technique=_EXSIM_TECH + "offline per-(pair,bar) liquidity walk over the order-event log in acceptance order; grid "
              "membership of every fill, fee and reported balance",
    text="Fills are grouped by bar from the event log and walked in acceptance order against the bar's share of volume; "
         "precision classes cover all base/quote precisions 0..8.",
    note=_EXSIM_NOTE)
CHECKS["C09"] = dict(engine="exsim", level="exploration", design_ref="3/C09",
    technique=_EXSIM_TECH + "closed-form fee reference evaluated for every order on every snapshot",
    text="The closed form ceil(max(pct*Q/100, min)) is compared with OrderInfo.fees after every event, so every "
         "intermediate partial-fill state of every order is covered.",
    note=_EXSIM_NOTE)
CHECKS["C10"] = dict(engine="exsim", level="exploration", design_ref="3/C10",
    technique=_EXSIM_TECH + "independent equity / required-margin computation from public balances and last prices "
              "after every granted loan; boundary loans sized at run time (largest grantable +- one unit)",
    text="Necessary condition checked on every grant (explicit and automatic); workloads aim at the boundary, empty and "
         "zero-equity accounts, several borrowed symbols, moving prices.",
    note=_EXSIM_NOTE + " Equity uses the code's / Binance's definition (per symbol max(0, net) at last price).")
CHECKS["C11"] = dict(engine="exsim", level="exploration", design_ref="3/C11",
    technique=_EXSIM_TECH + "interval interest reference on every LoanInfo reading, exact debit check around "
              "repay_loan, closure-cause attribution between consecutive snapshots, greedy largest-first reference",
    text="Every interest reading is compared with an exact-rational reference (interval because of the float ratio); "
         "loan closures are attributed to one of the three permitted causes; auto-repay is compared with a greedy "
         "reference when exactly one order changed in the interval.",
    note=_EXSIM_NOTE)

_DISPX_NOTE = ("Handlers, producers and jobs are cooperative coroutines written by the harness; interleavings come from "
               "suspension points, pool sizes, subscription orders and the timing of external actions - the event "
               "loop's ready queue is never permuted. " + COMMON_NOTE)
CHECKS["C03"] = dict(engine="dispx", level="exploration", design_ref="4/C03",
    technique="runtime monitoring: recording proxy stamps every accepted order with the dispatcher clock and checks "
              "every fill event's timestamp; differential execution of the same strategy under 6 pool sizes x 2 "
              "repetitions x 4+ interpreters with different PYTHONHASHSEED, comparing digests of the normalised history",
    text="Clause 1 is an online monitor over order events of generated multi-source strategies (random setup order, "
         "derived sources, suspension points). Clause 2 is a differential oracle that needs no expected value: the "
         "same strategy must produce the same normalised history for every pool size, hash seed and repetition.",
    note="Clause 2 only for non-suspending handlers; orders identified by creation order. " + _DISPX_NOTE)
CHECKS["C12"] = dict(engine="dispx", level="exploration", design_ref="4/C12",
    technique="runtime monitoring: handler invocation trace (start/resume/end, event time, dispatcher clock) of "
              "generated scenarios on the real BacktestingDispatcher, checked offline for exactly-once, global time "
              "order, stage order, clock equality and monotonicity",
    text="Thousands of generated scenarios (1-8 sources with ties, derived sources fed by handlers, sniffers, duplicate "
         "subscriptions, 0-4 suspension points, raising handlers, pool sizes incl. fewer slots than sources); the "
         "number of distinct interleaving signatures observed is reported.",
    note=_DISPX_NOTE)
CHECKS["C13"] = dict(engine="dispx", level="exploration", design_ref="4/C13",
    technique="runtime monitoring: job/handler invocation trace on the real BacktestingDispatcher checked offline for "
              "exactly-once, clock >= due time, pairwise order of jobs pending together, order w.r.t. events; all "
              "insertion orders of small job multisets enumerated",
    text="Random scenarios plus an exhaustive sweep of every insertion order of every multiset of up to 4 job slots "
         "(and all permutations of 5) around and beyond the event times, jobs scheduled from handlers and jobs, "
         "raising jobs.",
    note="'Non-decreasing order' is read for jobs pending at the same moment. " + _DISPX_NOTE)
CHECKS["C14"] = dict(engine="dispx", level="fault_enumeration", design_ref="4/C14",
    technique="runtime monitoring under a virtual-time loop: producer phase trace, in-flight counter, outcome of run(), "
              "log record factory identity; exhaustive enumeration of dispatcher x exit path x failing producer phase "
              "x instant, crossed with random schedules; icontract post-condition on TaskPool.push",
    text="The fault space (125 points) is small and is enumerated completely in both tiers; each point is crossed with "
         "random schedules (pool sizes, competing due events / jobs / idle handlers, handler durations). The oracle is "
         "a lifecycle automaton plus the set of allowed outcomes, decided on virtual time.",
    note="Double faults (a second fault while already finalising) are outside the enumerated product. " + _DISPX_NOTE)
CHECKS["C15"] = dict(engine="dispx", level="exploration", design_ref="4/C15",
    technique="runtime monitoring under a virtual-time loop (utc_now substituted): handler/job trace stamped with the "
              "virtual clock, checked for never-early, per-source order with drop+report of older events, exactly "
              "once, idle-only-when-idle and bounded progress",
    text="'Eventually dispatched' is decided as bounded progress in virtual time (deadline derived from the scripted "
         "handler durations; 0.1 s lateness bound with an unsaturated pool). Unbounded liveness is out of reach of "
         "any finite run and is not claimed.",
    note=_DISPX_NOTE)

CHECKS["C16"] = dict(engine="wire", level="exploration", design_ref="5/C16",
    technique="runtime monitoring with a verifying peer: the real clients (full aiohttp/yarl stack, real sockets) call "
              "a loopback aiohttp.web server that recomputes the HMAC from the raw request line, headers and body it "
              "received; nonce set and bracketed timestamps",
    text="Every signed / key-only endpoint of both clients at client, request-object and exchange level, thousands of "
         "argument values incl. client ids over URL-special alphabets and decimals of any exponent. The oracle is the "
         "exchange's own verification rule applied to received bytes, so no expected value is needed.",
    note="Exchange-side verification rules are transcribed from the public API documentation (not fetchable here). "
         + COMMON_NOTE)
CHECKS["C17"] = dict(engine="wire", level="exploration", design_ref="5/C17",
    technique="runtime monitoring at a loopback server (received parameters vs documented method/path/parameter table; "
              "plain-notation regex + numeric equality for every decimal) and reference decoding of generated REST / "
              "websocket payloads through the real wrapper classes",
    text="Outbound: every order entry point with decimals of every exponent / normalisation form. Inbound: generated "
         "payloads with arbitrary decimal strings, ms/us timestamps 2010-2100 at full resolution, every documented "
         "status; wrapper attributes must equal exact references (Decimal(string), integer epoch arithmetic).",
    note="Status sets are the classic documented ones; default-valued options are not 'unset'. " + COMMON_NOTE)

CHECKS["C18"] = dict(engine="wsfault", level="fault_enumeration", design_ref="5/C18",
    technique="runtime monitoring under a virtual-time loop: the real websocket clients and realtime dispatcher against "
              "an in-memory scripted peer (aiohttp iteration semantics) that records SUBSCRIBE frames, listen-key REST "
              "calls and connection instants; offline per-connection obligation, routing, keep-alive cadence and "
              "back-off checkers; fault scripts enumerated up to length 3 and random up to 12",
    text="Four client kinds x every sequence of up to 3 fault / client actions (thorough) plus random longer scripts. "
         "'Subscribed again' is a bounded per-connection obligation in virtual time, routing uses uniquely identified "
         "messages, keep-alive cadence is checked per listen key.",
    note="The fake peer mirrors aiohttp's client websocket surface used by basana but is not aiohttp itself; Bitstamp "
         "private channel naming on the live service is not asserted. " + COMMON_NOTE)

NOT_YET = {}


def main() -> int:
    props = [json.loads(line) for line in (ROOT / "properties.jsonl").read_text().splitlines() if line.strip()]
    ids = [p["id"] for p in props]
    checks = []
    for pid in ids:
        c = CHECKS.get(pid)
        if not c:
            continue
        checks.append({
            "property_id": pid,
            "quick_cmd": f"./check {pid} --tier quick",
            "thorough_cmd": f"./check {pid} --tier thorough",
            "evidence_file": f"/verif/evidence/{pid}.json",
            "replay_cmd_template": f"./check {pid} --replay {{path}}",
            "engine": c["engine"],
            "level_claimed": {"category": c["level"], "text": c["text"], "design_ref": "DESIGN.md section " + c["design_ref"]},
            "level_note": c["note"],
            "technique": c["technique"],
        })
    na = [{"property_id": pid, "reason": NOT_YET.get(pid, "check not built yet in this round (planned, see DESIGN.md); "
                                                      "the technique applies")}
          for pid in ids if pid not in CHECKS]
    engines = {}
    for pid, c in CHECKS.items():
        engines.setdefault(c["engine"], []).append(pid)
    manifest = {
        "version": 1,
        "setup_cmd": "./setup.sh",
        "hooks": {
            "guard": "BASANA_VERIF",
            "enable": "checks export BASANA_VERIF=1 for their worker processes; the repository is pure Python and is "
                      "imported from /repo's working tree (editable install), so there is no build step. No hook "
                      "commit exists: every observation point is reachable from outside.",
            "baseline_off_cmd": "./tools/baseline_off.sh",
            "source_commits": [],
            "add_only": True,
        },
        "engines": [
            {"name": name, "path": f"/verif/vf/{name}", "serves_properties": sorted(pids),
             "kind_free_text": ENGINE_TEXT.get(name, "")}
            for name, pids in sorted(engines.items())
        ],
        "checks": checks,
        "not_applicable": na,
        "notes": "One entry point: ./check <ID> [--tier quick|thorough] [--replay FILE]. Exit 0 held, 1 violation "
                 "(VIOLATION line + replay file), 2 inconclusive (a deciding monitor was never reached or a worker hit "
                 "the watchdog). Known findings: /verif/known_findings.json (read-only at run time).",
    }
    (ROOT / "MANIFEST.json").write_text(json.dumps(manifest, indent=1) + "\n")
    print(f"MANIFEST.json: {len(checks)} checks, {len(na)} not_applicable")
    return 0


ENGINE_TEXT = {
    "bucket": "real TokenBucketLimiter under a substituted clock + reference bucket monitor",
    "feeds": "generated CSV files / trade streams through the real sources; row-by-row and window-membership references",
    "dispx": "generated dispatcher scenarios (sources, handlers with suspension points, jobs, faults) with trace "
             "recording and offline trace checkers; realtime dispatcher under a virtual-time loop",
    "exsim": "random and directed backtests on the real exchange with a recording proxy, snapshots after every call "
             "and event, shadow ledger / holds / reference formulas",
    "wire": "real REST clients against an aiohttp loopback server that verifies signatures and parameters on the "
            "received bytes",
    "wsfault": "real websocket clients against an in-memory scripted peer injecting faults under virtual time",
}

if __name__ == "__main__":
    sys.exit(main())
