#!/bin/bash
# tools/confirm_mutant.sh <mutant dir with patch.diff, demo.py, meta.json> <seeded id>
# Confirms, in a scratch worktree of /repo HEAD: demo passes without the change, patch applies, demo fails with it,
# the repository's baseline tests still pass. On success copies the mutant to /verif/seeded/<id>/ and records what was run.
src="$1"; id="$2"
wt="/tmp/wt/confirm-$id-$$"
git -C /repo worktree add --detach "$wt" HEAD -q || exit 2
cleanup() { git -C /repo worktree remove --force "$wt" 2>/dev/null; rm -rf "$wt"; }
trap cleanup EXIT
cd "$wt"
export PYTHONPATH="$wt"
d0=$(timeout 120 /venv/bin/python "$src/demo.py" 2>&1 | tail -3); rc0=$?
rc0=${PIPESTATUS[0]}
timeout 120 /venv/bin/python "$src/demo.py" >/tmp/wt/confirm-$id.clean.log 2>&1; rc0=$?
git apply "$src/patch.diff" || { echo "$id: patch does not apply on HEAD"; exit 1; }
timeout 120 /venv/bin/python "$src/demo.py" >/tmp/wt/confirm-$id.mut.log 2>&1; rc1=$?
/venv/bin/python -m pytest -q -p no:cacheprovider --timeout=900 --continue-on-collection-errors --junitxml="$wt/junit.xml" tests >/tmp/wt/confirm-$id.tests.log 2>&1
missing=$(/venv/bin/python - "$wt/junit.xml" <<'PY'
import json, sys, xml.etree.ElementTree as ET
base = set(json.load(open("/root/.vp/BASELINE.json"))["stable_pass"])
passed, failed = set(), set()
for tc in ET.parse(sys.argv[1]).getroot().iter("testcase"):
    tid = (tc.get("classname") or "") + "::" + (tc.get("name") or "")
    if tc.find("failure") is not None or tc.find("error") is not None: failed.add(tid)
    elif tc.find("skipped") is None: passed.add(tid)
print(len(base - (passed - failed)))
PY
)
echo "$id: demo clean rc=$rc0, demo mutated rc=$rc1, baseline tests missing=$missing"
if [ "$rc0" = "0" ] && [ "$rc1" != "0" ] && [ "$missing" = "0" ]; then
  mkdir -p /verif/seeded/$id
  cp "$src/patch.diff" "$src/demo.py" /verif/seeded/$id/
  /venv/bin/python - "$src/meta.json" "/verif/seeded/$id/meta.json" "$(git -C /repo rev-parse --short HEAD)" <<'PY'
import json, sys
m = json.load(open(sys.argv[1]))
m["confirmed"] = {"repo_head": sys.argv[3], "demo_on_clean_tree": "exit 0 (PASS)", "demo_with_change": "exit 1 (FAIL)",
                  "baseline_tests_with_change": "all 226 baseline tests pass",
                  "how": "tools/confirm_mutant.sh in a scratch git worktree of /repo HEAD (removed afterwards)"}
json.dump(m, open(sys.argv[2], "w"), indent=1)
PY
  echo "$id: CONFIRMED -> /verif/seeded/$id"
else
  echo "$id: NOT confirmed"; tail -5 /tmp/wt/confirm-$id.mut.log
fi
