"""
Every event of every source has to be dispatched once it is due. A trading signal source emits a multi-pair signal
that happens to carry no pairs (e.g. a rebalancing signal computed over an empty universe) between two ordinary
signals. All three are due, so all three must reach the handler, in order.
"""
import asyncio
import datetime
import sys

import basana as bs
from basana.core.event_sources.trading_signal import BaseTradingSignal


async def main():
    dispatcher = bs.realtime_dispatcher(max_concurrent=5)
    now = dispatcher.now()
    pair = bs.Pair("BTC", "USDT")

    signals = bs.TradingSignalSource(dispatcher)
    other = bs.FifoQueueEventSource()
    delivered = []
    other_delivered = []

    async def on_signal(signal):
        delivered.append(signal)

    async def on_other(e):
        other_delivered.append(e)

    async def stop():
        dispatcher.stop()

    signals.subscribe_to_trading_signals(on_signal)
    dispatcher.subscribe(other, on_other)

    first = bs.TradingSignal(now - datetime.timedelta(seconds=3), bs.Position.LONG, pair)
    empty = BaseTradingSignal(now - datetime.timedelta(seconds=2))
    last = BaseTradingSignal(now - datetime.timedelta(seconds=1))
    last.add_pair(pair, bs.Position.NEUTRAL)
    pushed = [first, empty, last]
    for signal in pushed:
        signals.push(signal)
    other.push(bs.Event(now - datetime.timedelta(seconds=2)))

    dispatcher.schedule(now + datetime.timedelta(seconds=1), stop)
    await asyncio.wait_for(dispatcher.run(stop_signals=[]), 30)

    problems = []
    if len(other_delivered) != 1:
        problems.append("plain source: 1 event pushed, %d delivered" % len(other_delivered))
    if delivered != pushed:
        names = {id(first): "first", id(empty): "empty", id(last): "last"}
        problems.append(
            "signal source: 3 due signals pushed (first, empty, last) but after 1 second only %s were delivered" % (
                [names[id(s)] for s in delivered]
            )
        )
    return problems


if __name__ == "__main__":
    problems = asyncio.run(main())
    if problems:
        print("FAIL: " + "; ".join(problems))
        sys.exit(1)
    print("PASS")
    sys.exit(0)
