# A pair that has no precision of its own (neither set with Exchange.set_pair_info, nor with
# Exchange.set_symbol_precision for its two symbols) trades with the default pair info of the exchange, no matter
# what was configured for OTHER pairs that happen to share a symbol with it.
from decimal import Decimal
import asyncio
import datetime
import sys

import basana as bs
from basana.backtesting import exchange as bt_exchange
from basana.core.pair import Pair, PairInfo

BTC_USD = Pair("BTC", "USD")
ETH_BTC = Pair("ETH", "BTC")
ETH_USD = Pair("ETH", "USD")
DEFAULT = PairInfo(base_precision=0, quote_precision=1)


def on_grid(value: Decimal, precision: int) -> bool:
    return value == value.quantize(Decimal(1).scaleb(-precision))


def build_bars():
    ret = []
    begin = datetime.datetime(2024, 1, 1, tzinfo=datetime.timezone.utc)
    # (open, high, low, close, volume)
    rows = [
        ("2000.13", "2011.77", "1990.31", "2000.57", "13.777"),
        ("2000.57", "2022.03", "1998.87", "2011.11", "9.3331"),
        ("2011.11", "2033.19", "2000.03", "2022.37", "21.5"),
        ("2022.37", "2044.01", "2011.23", "2033.91", "400"),
    ]
    for i, (o, h, l, c, v) in enumerate(rows):
        dt = begin + datetime.timedelta(days=i)
        ret.append(bs.BarEvent(
            dt + datetime.timedelta(days=1),
            bs.Bar(dt, ETH_USD, Decimal(o), Decimal(h), Decimal(l), Decimal(c), Decimal(v))
        ))
    return ret


async def main():
    problems = []
    d = bs.backtesting_dispatcher()
    e = bt_exchange.Exchange(
        d, {"USD": Decimal("100000"), "ETH": Decimal("50")},
        fee_strategy=bt_exchange.fees.Percentage(Decimal("0.25")),
        default_pair_info=DEFAULT,
    )
    # Other markets of this exchange.
    e.set_pair_info(BTC_USD, PairInfo(base_precision=8, quote_precision=2))
    e.set_pair_info(ETH_BTC, PairInfo(base_precision=3, quote_precision=8))
    e.add_bar_source(bs.FifoQueueEventSource(events=build_bars()))

    pair_info = await e.get_pair_info(ETH_USD)
    if pair_info != DEFAULT:
        problems.append(f"get_pair_info(ETH/USD) returned {pair_info} instead of the default {DEFAULT}")

    # An amount finer than the base precision has to be rejected.
    try:
        await e.create_limit_order(bs.OrderOperation.BUY, ETH_USD, Decimal("0.5"), Decimal("1500"))
        problems.append("An order for 0.5 ETH was accepted, but ETH/USD has a base precision of 0")
    except bt_exchange.Error:
        pass

    # Both orders get filled partially, bar after bar, with whatever the liquidity of the bar allows for.
    buy = await e.create_limit_order(bs.OrderOperation.BUY, ETH_USD, Decimal("9"), Decimal("2050"))
    sell = await e.create_limit_order(bs.OrderOperation.SELL, ETH_USD, Decimal("7"), Decimal("1900"))

    async def check_balances(bar_event):
        for symbol, precision in (("ETH", DEFAULT.base_precision), ("USD", DEFAULT.quote_precision)):
            balance = await e.get_balance(symbol)
            for name in ("available", "hold", "borrowed"):
                if not on_grid(getattr(balance, name), precision):
                    problems.append(
                        f"{bar_event.when.date()}: {symbol} {name} balance {getattr(balance, name)} is not a multiple "
                        f"of 1e-{precision}"
                    )

    e.subscribe_to_bar_events(ETH_USD, check_balances)
    await d.run()

    for name, order_id in (("buy", buy.id), ("sell", sell.id)):
        info = await e.get_order_info(order_id)
        if not info.amount_filled:
            problems.append(f"The scenario is broken: the {name} order did not get filled")
        if not on_grid(info.amount_filled, DEFAULT.base_precision):
            problems.append(f"{name} order: base amount filled {info.amount_filled} is not an integer")
        if not on_grid(info.quote_amount_filled, DEFAULT.quote_precision):
            problems.append(f"{name} order: quote amount filled {info.quote_amount_filled} is not a multiple of 1e-1")
        for symbol, fee in info.fees.items():
            if not on_grid(fee, DEFAULT.quote_precision):
                problems.append(f"{name} order: {symbol} fee {fee} is not a multiple of 1e-1")
    return problems


if __name__ == "__main__":
    problems = asyncio.run(main())
    if problems:
        print("FAIL")
        for problem in problems[:10]:
            print(" -", problem)
        sys.exit(1)
    print("PASS")
    sys.exit(0)
