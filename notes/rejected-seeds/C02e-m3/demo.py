# A short sale with auto_borrow needs two loans: BTC to sell and, because the minimum fee is bigger than the proceeds,
# USD to pay the fee. Only BTC can be borrowed (there are no lending conditions for USD), so the order is refused.
# A refused order must not leave borrowed funds behind: the account must be exactly as it was before the request.
from decimal import Decimal
import asyncio
import datetime
import sys

import basana as bs
from basana.backtesting import exchange, fees, lending, liquidity
from basana.core import bar, event
from basana.core.enums import OrderOperation
from basana.core.pair import Pair, PairInfo

PAIR = Pair("BTC", "USD")
ETH_PAIR = Pair("ETH", "USD")
T0 = datetime.datetime(2000, 1, 1, tzinfo=datetime.timezone.utc)
DAY = datetime.timedelta(days=1)


def bar_source(pair, count):
    src = event.FifoQueueEventSource()
    for i in range(count):
        src.push(bar.BarEvent(
            T0 + DAY * (i + 1),
            bar.Bar(T0 + DAY * i, pair, Decimal(1000), Decimal(1000), Decimal(1000), Decimal(1000), Decimal(1000))
        ))
    return src


async def main():
    dispatcher = bs.backtesting_dispatcher()
    lending_strategy = lending.MarginLoans("USD")
    lending_strategy.set_conditions("BTC", lending.MarginLoanConditions(
        interest_symbol="BTC", interest_percentage=Decimal(0), interest_period=datetime.timedelta(days=365),
        min_interest=Decimal(0), margin_requirement=Decimal("0.5")
    ))
    e = exchange.Exchange(
        dispatcher, {"ETH": Decimal(10)},
        liquidity_strategy_factory=liquidity.InfiniteLiquidity,
        fee_strategy=fees.Percentage(percentage=Decimal("0.25"), min_fee=Decimal(2001)),
        lending_strategy=lending_strategy,
    )
    for symbol, precision in {"BTC": 8, "ETH": 8, "USD": 2}.items():
        e.set_symbol_precision(symbol, precision)
    e.set_pair_info(PAIR, PairInfo(8, 2))
    e.add_bar_source(bar_source(PAIR, 3))
    e.add_bar_source(bar_source(ETH_PAIR, 3))

    problems = []
    step = 0

    async def snapshot():
        balances = await e.get_balances()
        return {
            symbol: (b.available, b.hold, b.borrowed) for symbol, b in balances.items()
            if b.available or b.hold or b.borrowed
        }

    async def on_bar(bar_event):
        nonlocal step
        step += 1
        if step != 2:
            return
        before = await snapshot()
        try:
            await e.create_limit_order(OrderOperation.SELL, PAIR, Decimal(2), Decimal(1000), auto_borrow=True)
            problems.append("the order was accepted although USD can't be borrowed")
        except exchange.Error:
            pass
        after = await snapshot()
        open_loans = await e.get_loans(is_open=True)
        open_orders = await e.get_open_orders()
        if open_orders:
            problems.append(f"open orders after the refusal: {open_orders}")
        if open_loans:
            problems.append(
                "the order was refused but these loans stay open: "
                + ", ".join(f"{loan.borrowed_amount} {loan.borrowed_symbol}" for loan in open_loans)
            )
        if before != after:
            problems.append(f"balances (available, hold, borrowed) changed from {before} to {after}")

    e.subscribe_to_bar_events(PAIR, on_bar)
    await dispatcher.run()

    if step < 2:
        problems.append("the scenario did not run")
    if problems:
        print("FAIL")
        for problem in problems:
            print(problem)
        return 1
    print("PASS")
    return 0


if __name__ == "__main__":
    sys.exit(asyncio.run(main()))
