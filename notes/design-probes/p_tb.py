import random, sys
import basana.core.token_bucket as tb
class Clk:
    t=1000.0
    @classmethod
    def time(c): return c.t
tb.time=Clk
def run(seed):
    R=random.Random(seed)
    tpp=R.choice([0.3,1,2,5,7.5,100]); per=R.choice([1,2,10,60]); init=R.choice([0,0,1,tpp,tpp*3,tpp/2])
    rate=tpp/per; cap=max(tpp,init)
    Clk.t=1000.0
    l=tb.TokenBucketLimiter(tpp,per,init)
    a=float(init); last=Clk.t
    sends=[]; n=R.randint(10,400)
    viol=[]
    mode=R.choice(["burst","poisson","overload","mixed"])
    for i in range(n):
        if mode=="burst": gap=0 if R.random()<.8 else R.uniform(0,per*2)
        elif mode=="poisson": gap=R.expovariate(rate)
        elif mode=="overload": gap=R.expovariate(rate*5)
        else: gap=R.choice([0,0,R.uniform(0,per/10),R.uniform(per,per*5)])
        Clk.t+=gap
        w=l.consume()
        # reference
        a=min(tpp, a+(Clk.t-last)*rate) if True else a
        last=Clk.t
        a-=1
        exp=max(0.0,-a)/rate
        if w<0: viol.append(("neg",w))
        if not (init>tpp) and abs(w-exp)>1e-9*max(1,exp): viol.append(("delay",i,w,exp))
        sends.append(Clk.t+w)
    sends.sort()
    # window bound: for all i<=j: j-i+1 <= cap + rate*(tj-ti) + 1
    # max over i of (i - rate*ti) ... check j - rate*tj - (i - rate*ti) + 1 <= cap+1
    best=None; worst=0
    m=float("inf")
    for j,t in enumerate(sends):
        v=j-rate*t
        m=min(m,v)
        worst=max(worst, v-m+1)
    if worst> cap+1+1e-6: viol.append(("window",worst,cap+1,tpp,per,init,mode))
    return viol, worst-(cap+1)
mx=-1e9
for s in range(3000):
    v,slack=run(s); mx=max(mx,slack)
    if v: print(s,v[:2]); break
print("max (count - bound):", mx)
