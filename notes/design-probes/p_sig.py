import asyncio, hmac, hashlib
from decimal import Decimal as D
from aiohttp import web
from basana.external.binance import client as bc
from basana.external.bitstamp import client as sc
seen=[]
async def handler(request):
    body=await request.read()
    raw_qs=request.raw_path.split('?',1)[1] if '?' in request.raw_path else ''
    seen.append((request.method, request.raw_path, dict(request.headers), body))
    return web.json_response({})
async def main():
    app=web.Application(); app.router.add_route('*','/{tail:.*}',handler)
    runner=web.AppRunner(app); await runner.setup(); site=web.TCPSite(runner,'127.0.0.1',0); await site.start()
    port=site._server.sockets[0].getsockname()[1]
    base=f"http://127.0.0.1:{port}/"
    cli=bc.APIClient("key","secret",config_overrides={"api":{"http":{"base_url":base}}})
    for cid in ["abc-_123","a:b/c.d","x y","é"]:
        try: await cli.spot_account.query_order("BTCUSDT", orig_client_order_id=cid)
        except Exception as e: print("err",e)
        m,p,h,b=seen[-1]
        qs=p.split('?',1)[1]
        unsigned,sig=qs.rsplit('&signature=',1)
        exp=hmac.new(b"secret",(unsigned+b.decode()).encode(),hashlib.sha256).hexdigest()
        print(repr(cid), "OK" if exp==sig else "MISMATCH", qs[:80])
    await cli.spot_account.create_order("BTCUSDT","BUY","LIMIT",time_in_force="GTC",quantity=D("0.00000085"),price=D("1E+3"),new_client_order_id="a:b/c d")
    m,p,h,b=seen[-1]; qs=p.split('?',1)[1]; unsigned,sig=qs.rsplit('&signature=',1)
    exp=hmac.new(b"secret",(unsigned+b.decode()).encode(),hashlib.sha256).hexdigest()
    print("POST", "OK" if exp==sig else "MISMATCH", b)
    bcli=sc.APIClient("key","secret",config_overrides={"api":{"http":{"base_url":base}}})
    await bcli.create_limit_order("buy","btcusd",D("0.00000085"),D("1E+3"),client_order_id="a b&c=d")
    m,p,h,b=seen[-1]; print(m,p,b,{k:v for k,v in h.items() if k.startswith('X-Auth') or k=='Content-Type'})
    await runner.cleanup()
asyncio.run(main())
