import asyncio, datetime
from decimal import Decimal as D
from basana.core import dispatcher, event, bar
from basana.core.pair import Pair, PairInfo
from basana.core.enums import OrderOperation as Op
from basana.backtesting import exchange, liquidity
UTC=datetime.timezone.utc
def T(s): return datetime.datetime(2000,1,1,tzinfo=UTC)+datetime.timedelta(days=s)
async def run(op):
    d=dispatcher.backtesting_dispatcher()
    e=exchange.Exchange(d, {"USD":D(100000),"A":D(100)}, liquidity_strategy_factory=lambda: liquidity.VolumeShareImpact(D(25),D(0)))
    A=Pair("A","USD"); e.set_pair_info(A, PairInfo(0,2))
    s=event.FifoQueueEventSource()
    for i in range(3):
        s.push(bar.BarEvent(T(i+1), bar.Bar(T(i), A, D(100),D(105),D(95),D(100), D(10))))  # liquidity 2.5
    e.add_bar_source(s)
    ids=[]
    async def on(ev):
        if ev.when==T(1):
            ids.append((await e.create_limit_order(op, A, D(10), D(100))).id)
    e.subscribe_to_bar_events(A,on)
    evs=[]
    async def onord(ev): evs.append((ev.when.day, str(ev.order.amount_filled), str(ev.order.quote_amount_filled), ev.order.is_open))
    e.subscribe_to_order_events(onord)
    await d.run()
    print(op, evs)
asyncio.run(run(Op.BUY)); asyncio.run(run(Op.SELL))
