import asyncio, datetime, random, collections, logging, sys
from basana.core import dispatcher, event
UTC=datetime.timezone.utc
def T(s): return datetime.datetime(2000,1,1,tzinfo=UTC)+datetime.timedelta(seconds=s)
logging.disable(logging.CRITICAL)
class Ev(event.Event):
    def __init__(s,when,eid): super().__init__(when); s.eid=eid
def run(seed):
    R=random.Random(seed)
    mc=R.choice([1,1,2,3,5,50])
    d=dispatcher.backtesting_dispatcher(max_concurrent=mc)
    nsrc=R.randint(1,6); nder=R.randint(0,2)
    trace=[]; seq=[0]; eid=[0]
    srcs=[]; allev={}
    for i in range(nsrc):
        t=0; evs=[]
        for _ in range(R.randint(0,6)):
            t+=R.choice([0,0,1,2]); eid[0]+=1; e=Ev(T(t),eid[0]); evs.append(e); allev[e.eid]=(i,e)
        srcs.append(event.FifoQueueEventSource(events=evs))
    ders=[event.FifoQueueEventSource() for _ in range(nder)]
    lastpush={i:None for i in range(nder)}
    subs=collections.defaultdict(list)
    def mk(hid, kind, src_idx):
        steps=R.randint(0,3); fail=R.random()<.15; pushto=R.choice([None]+list(range(nder))) if kind=="h" and src_idx<nsrc else None
        delay=R.choice([0,0,1])
        async def h(e):
            seq[0]+=1; trace.append((seq[0],"start",hid,kind,e.eid,e.when,d.now()))
            for _ in range(steps):
                await asyncio.sleep(0); seq[0]+=1; trace.append((seq[0],"resume",hid,kind,e.eid,e.when,d.now()))
            if pushto is not None and R.random()<.5:
                w=d.now()+datetime.timedelta(seconds=delay)
                if lastpush[pushto] is None or w>=lastpush[pushto]:
                    lastpush[pushto]=w; eid[0]+=1; ne=Ev(w,eid[0]); allev[ne.eid]=(nsrc+pushto,ne); ders[pushto].push(ne)
            seq[0]+=1; trace.append((seq[0],"end",hid,kind,e.eid,e.when,d.now()))
            if fail: raise RuntimeError("x")
        return h
    hid=0
    order=list(range(nsrc+nder)); R.shuffle(order)
    for si in order:
        s=(srcs+ders)[si]
        for _ in range(R.randint(0 if si<nsrc else 1,3)):
            hid+=1; h=mk(hid,"h",si); d.subscribe(s,h); subs[si].append(hid)
            if R.random()<.2: d.subscribe(s,h)
    pre=[];post=[]
    for _ in range(R.randint(0,2)): hid+=1; d.subscribe_all(mk(hid,"pre",-1),front_run=True); pre.append(hid)
    for _ in range(R.randint(0,2)): hid+=1; d.subscribe_all(mk(hid,"post",-1)); post.append(hid)
    asyncio.run(d.run(stop_signals=[]))
    v=[]
    starts=collections.Counter((t[2],t[4]) for t in trace if t[1]=="start")
    # which events were dispatched: subscribed sources only
    for e_id,(si,e) in allev.items():
        subscribed = si in subs or True
        for h in subs.get(si,[])+pre+post:
            if (si in subs) and starts.get((h,e_id),0)!=1: v.append(("once",h,e_id,starts.get((h,e_id),0),si))
    if any(c>1 for c in starts.values()): v.append("dup")
    for t in trace:
        if t[5]!=t[6]: v.append(("clock",t)); break
    nows=[t[6] for t in trace]
    if any(a>b for a,b in zip(nows,nows[1:])): v.append("clock backwards")
    # global order
    first_start={}; last_end={}
    for t in trace:
        if t[1]=="start": first_start.setdefault(t[4],t[0])
        if t[1]=="end": last_end[t[4]]=t[0]
    evs=sorted(first_start, key=lambda i: first_start[i])
    for a in evs:
        for b in evs:
            if allev[a][1].when<allev[b][1].when and not last_end[a]<first_start[b]: v.append(("order",a,b)); break
    # stage order per event
    by=collections.defaultdict(list)
    for t in trace: by[t[4]].append(t)
    for e_id,ts in by.items():
        pre_end=max([t[0] for t in ts if t[3]=="pre" and t[1]=="end"],default=0)
        h_start=[t for t in ts if t[3]=="h" and t[1]=="start"]
        h_end=max([t[0] for t in ts if t[3]=="h" and t[1]=="end"],default=0)
        post_start=min([t[0] for t in ts if t[3]=="post" and t[1]=="start"],default=10**9)
        if h_start and pre_end>min(t[0] for t in h_start): v.append(("stage pre",e_id))
        if post_start<max(h_end,pre_end): v.append(("stage post",e_id))
        si=allev[e_id][0]
        if [t[2] for t in h_start]!=subs.get(si,[]): v.append(("sub order",[t[2] for t in h_start],subs.get(si)))
    return v, len(trace), mc
tot=0
for s in range(int(sys.argv[1])):
    v,n,mc=run(s); tot+=n
    if v: print(s,mc,v[:3]); break
print("trace events",tot)
