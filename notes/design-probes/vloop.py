import asyncio, datetime, selectors
class VirtualTimeLoop(asyncio.SelectorEventLoop):
    def __init__(self, start=0.0):
        super().__init__()
        self._vt = start
        self.jumps = 0
        real_select = self._selector.select
        def select(timeout=None):
            if timeout is None:
                raise RuntimeError("virtual loop deadlock: nothing scheduled")
            if timeout > 0:
                self._vt += timeout; self.jumps += 1
            return []
        self._selector.select = select
    def time(self): return self._vt
EPOCH=datetime.datetime(2020,1,1,tzinfo=datetime.timezone.utc)
def install(loop):
    import basana.core.dt as bdt
    bdt.utc_now = lambda: EPOCH + datetime.timedelta(seconds=loop.time())
if __name__=="__main__":
    from basana.core import dispatcher, event, dt
    loop=VirtualTimeLoop(); asyncio.set_event_loop(loop); install(loop)
    async def main():
        d=dispatcher.realtime_dispatcher(max_concurrent=2)
        src=event.FifoQueueEventSource()
        log=[]
        async def h(e):
            log.append(("start", (e.when-EPOCH).total_seconds(), loop.time())); await asyncio.sleep(3600); log.append(("end",loop.time()))
        d.subscribe(src,h)
        async def feeder():
            for i in range(5):
                await asyncio.sleep(1000)
                src.push(event.Event(dt.utc_now()+datetime.timedelta(seconds=500)))
            await asyncio.sleep(10000); d.stop()
        async def job(): log.append(("job", loop.time()))
        d.schedule(EPOCH+datetime.timedelta(seconds=12345), job)
        await asyncio.gather(d.run(stop_signals=[]), feeder())
        return log
    import time; t=time.time()
    print(loop.run_until_complete(main())); print("wall", time.time()-t, "jumps", loop.jumps)
