import asyncio, datetime
from basana.core import dispatcher, event
UTC=datetime.timezone.utc
def T(s): return datetime.datetime(2000,1,1,tzinfo=UTC)+datetime.timedelta(seconds=s)
async def main():
    d=dispatcher.backtesting_dispatcher()
    src=event.FifoQueueEventSource(events=[event.Event(T(0)),event.Event(T(10))])
    der=event.FifoQueueEventSource()
    log=[]
    async def h(e): log.append(("src",e.when.second,d.now().second))
    async def hd(e): log.append(("derived",e.when.second,d.now().second))
    d.subscribe(src,h); d.subscribe(der,hd)
    async def job(): der.push(event.Event(d.now()))
    d.schedule(T(5),job)
    await d.run(); print(log)
asyncio.run(main())
