# second probe: C04 per-fill price checks, C05 event/state sequence, C06 shadow holds, C10, C11
import asyncio, datetime, random, sys, decimal, collections, traceback, logging
from decimal import Decimal as D
src=open(__import__("os").path.join(__import__("os").path.dirname(__import__("os").path.abspath(__file__)),"fz.py")).read().replace("\nmain()\n","\n")
exec(compile(src,"fz.py","exec"))
class Mon2(Mon):
    def init(s,e,sc,d):
        super().init(e,sc,d); s.v=[]; s.meta={}; s.R={}; s.rem={}; s.last={}; s.barmap={(p,T(t)):(o,h,l,c,v) for p,lst in sc["bars"].items() for (t,o,h,l,c,v) in lst}
        s.fills_in_bar=collections.defaultdict(D)
    def viol(s,m): s.v.append(m)
    async def call(s,name,coro,info):
        e=s.e
        hb={k:v.hold for k,v in (await e.get_balances()).items()}
        lb={l.id for l in await e.get_loans()}
        s._defer_check=True
        try:
            r=await super().call(name,coro,info)
        finally:
            s._defer_check=False
        if name=="create_order":
            ha={k:v.hold for k,v in (await e.get_balances()).items()}
            o=[x for x in e._get_all_orders() if x.id==r.id][0]
            s.meta[r.id]=dict(info, pair=o.pair, t=s.d.now(), limit=getattr(o,"_limit_price",None), stop=getattr(o,"_stop_price",None))
            s.R[r.id]={k:ha.get(k,0)-hb.get(k,0) for k in set(ha)|set(hb) if ha.get(k,0)-hb.get(k,0)}
            s.rem[r.id]=dict(s.R[r.id]); s.last[r.id]=(D(0),D(0),D(0))
            # reservation reference
            pr=s.sc["prec"]; pi=(pr[o.pair.base_symbol],pr[o.pair.quote_symbol])
            exp={}
            est=s.meta[r.id]["limit"] or s.meta[r.id]["stop"]
            if est is None:
                try:
                    b,a=await e.get_bid_ask(o.pair); est=(b+a)/2
                except errors.Error: est=None
            if est is not None:
                qa=q(o.amount*est,pi[1]); fee=D(0)
                if s.sc["fee"]: fee=q(max(qa*s.sc["fee"][1]/100,s.sc["fee"][2]),pi[1],decimal.ROUND_UP)
                if o.operation==Op.BUY: exp[o.pair.quote_symbol]=qa+fee
                else:
                    exp[o.pair.base_symbol]=o.amount
                    if fee>qa: exp[o.pair.quote_symbol]=fee-qa
            else:
                if o.operation==Op.SELL: exp[o.pair.base_symbol]=o.amount
            exp={k:v for k,v in exp.items() if v}
            if exp!=s.R[r.id]: s.viol(f"C06 reservation {s.R[r.id]} expected {exp} {info} est={est}")
        await s.check("after-"+name)
        return r
    async def on_order_event(s,ev):
        oi=ev.order; oid=oi.id; m=s.meta.get(oid)
        s.evs[oid].append((ev.when,oi))
        if m is None: return
        pf=s.last[oid]; db=oi.amount_filled-pf[0]; dq=oi.quote_amount_filled-pf[1]; fee=sum(oi.fees.values(),D(0)); df=fee-pf[2]
        s.last[oid]=(oi.amount_filled,oi.quote_amount_filled,fee)
        p=m["pair"]; pr=s.sc["prec"]; tol=D("0.5").scaleb(-pr[p.quote_symbol])
        if db<0 or dq<0: s.viol("C05 filled decreased")
        if db>0:
            s.stats["fills"]+=1
            if ev.when<=m["t"]: s.viol(f"C03 fill at {ev.when} submitted {m['t']}")
            b=s.barmap.get((p,ev.when))
            if b is None: s.viol("C04 fill with no bar"); return
            o_,h,l,c,v=b; buy=m["op"]==Op.BUY
            if buy and dq< l*db-tol: s.viol(f"C04 buy below low {dq}/{db} low {l}")
            if not buy and dq> h*db+tol: s.viol(f"C04 sell above high {dq}/{db} high {h} kind {m['k']}")
            if m["limit"] is not None:
                if buy and dq> m["limit"]*db+tol: s.viol(f"C04 buy above limit {dq}/{db} limit {m['limit']}")
                if not buy and dq< m["limit"]*db-tol: s.viol(f"C04 sell below limit {dq}/{db} limit {m['limit']}")
                if buy and l>m["limit"]: s.viol("C04 limit not reached")
                if not buy and h<m["limit"]: s.viol("C04 limit not reached")
            if m["k"] in "MS":
                if dq> h*db+tol or dq< l*db-tol: s.viol(f"C04 outside range {dq}/{db} {l}-{h}")
                ref=o_ if m["k"]=="M" else m["stop"]
                if buy and dq< ref*db-tol: s.viol(f"C04 better than ref buy {dq}/{db} ref {ref}")
                if not buy and dq> ref*db+tol: s.viol(f"C04 better than ref sell {dq}/{db} ref {ref}")
                if oi.amount_filled!=oi.amount: s.viol("C05 partial fill of market/stop")
            s.fills_in_bar[(p,ev.when)]+=db
            if s.sc["liq"] and s.fills_in_bar[(p,ev.when)]> v*s.sc["liq"][0]/100: s.viol(f"C08 liquidity exceeded {s.fills_in_bar[(p,ev.when)]} > {v*s.sc['liq'][0]/100}")
            if db!=q(db,pr[p.base_symbol],decimal.ROUND_DOWN) or dq!=q(dq,pr[p.quote_symbol],decimal.ROUND_DOWN): s.viol("C08 fill off grid")
            # shadow holds
            net={p.base_symbol:(db if buy else -db), p.quote_symbol:((-dq if buy else dq)-df)}
            for sym,n in net.items():
                if n<0 and sym in s.rem[oid]: s.rem[oid][sym]=max(D(0),s.rem[oid][sym]+n)
        if not oi.is_open: s.rem[oid]={}
    async def check(s,where):
        if getattr(s,"_defer_check",False): return
        try:
            await super().check(where)
        except Viol as v: s.viol(str(v))
        e=s.e
        bal=await e.get_balances()
        exp=collections.Counter()
        for o in await e.get_orders():
            if o.is_open:
                for k,v in s.rem.get(o.id,{}).items(): exp[k]+=v
            elif s.rem.get(o.id): 
                # closed without event yet? cancellation events are pushed synchronously, but polled state may lead events
                pass
        # only compare when event queue drained: events are delivered later than state changes, so compare at points where all orders' last event matches state
        insync=all((s.evs[o.id] and s.evs[o.id][-1][1].amount_filled==o.amount_filled and s.evs[o.id][-1][1].is_open==o.is_open) for o in await e.get_orders() if o.id in s.meta)
        if insync:
            s.stats["hold_checks"]+=1
            for k in set(exp)|set(bal):
                h=bal[k].hold if k in bal else D(0)
                if h!=exp.get(k,0): s.viol(f"C06 shadow hold {k} {h} != {exp.get(k,0)} at {where}"); break
    def final(s):
        for oid,m in s.meta.items():
            evs=s.evs[oid]
            if not evs: s.viol("C05 no events"); continue
            if evs[0][1].amount_filled!=0 or not evs[0][1].is_open: s.viol("C05 first event not acceptance")
            if any(evs[i][0]>evs[i+1][0] for i in range(len(evs)-1)): s.viol("C05 events out of time order")
            st=[(x.amount_filled,x.is_open) for _,x in evs]
            if any(st[i]==st[i+1] for i in range(len(st)-1)): s.viol(f"C05 duplicate event {st}")
def main2():
    n=int(sys.argv[1]); start=int(sys.argv[2]) if len(sys.argv)>2 else 0
    agg=collections.Counter(); viol=collections.Counter()
    logging.disable(logging.CRITICAL)
    for seed in range(start,start+n):
        sc=scenario(seed); mon=Mon2()
        try:
            asyncio.run(run(sc,mon)); mon.final()
        except Exception as ex:
            mon.v.append("EXC "+repr(ex)[:80]); traceback.print_exc()
        for m in mon.v[:1]:
            key=m[:28]
            viol[key]+=1
            if viol[key]<=2: print("seed",seed,m[:300])
        agg.update(mon.stats)
    print(agg); print(viol)
main2()
