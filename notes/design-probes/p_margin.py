import asyncio, datetime
from decimal import Decimal as D
from basana.core import dispatcher, event, bar
from basana.core.pair import Pair, PairInfo
from basana.core.enums import OrderOperation as Op
from basana.backtesting import exchange, liquidity, lending
UTC=datetime.timezone.utc
def T(s): return datetime.datetime(2000,1,1,tzinfo=UTC)+datetime.timedelta(days=s)
def mk(initial, prices):
    d=dispatcher.backtesting_dispatcher()
    ls=lending.MarginLoans("USD", default_conditions=lending.MarginLoanConditions(
        interest_symbol="USD", interest_percentage=D(10), interest_period=datetime.timedelta(days=365), min_interest=D(0), margin_requirement=D("0.5")))
    e=exchange.Exchange(d, initial, liquidity_strategy_factory=liquidity.InfiniteLiquidity, lending_strategy=ls)
    A=Pair("BTC","USD"); e.set_pair_info(A, PairInfo(8,2)); e.set_symbol_precision("BTC",8); e.set_symbol_precision("USD",2)
    s=event.FifoQueueEventSource()
    for i,p in enumerate(prices):
        p=D(p); s.push(bar.BarEvent(T(i+1), bar.Bar(T(i), A, p,p,p,p, D(1000))))
    e.add_bar_source(s)
    return d,e,A
async def snap(e):
    return {k:(str(v.available),str(v.hold),str(v.borrowed)) for k,v in (await e.get_balances()).items()}
# C10: zero equity
async def c10():
    d,e,A=mk({}, [1000,1000])
    async def on(ev):
        if ev.when==T(1):
            try:
                l=await e.create_loan("USD", D(1000000)); print("C10 loan granted with zero equity:", l.borrowed_amount, await snap(e))
            except Exception as ex: print("C10 refused", ex)
    e.subscribe_to_bar_events(A,on)
    await d.run()
asyncio.run(c10())
# C06/C07: cancel when margin level < 100
async def c06():
    d,e,A=mk({"USD":D(1000)}, [1000,1000,3000,3000,3000])
    st={}
    async def on(ev):
        if ev.when==T(1):
            # borrow BTC 1.9 (value 1900, req 950 <= equity 1000), place a far limit order to sell 1 BTC (hold BTC 1)
            await e.create_loan("BTC", D("1.9"))
            st['oid']=(await e.create_limit_order(Op.SELL, A, D(1), D(5000))).id
            # Sell .9 BTC at market to reduce equity when price rises? we want margin level to drop: price UP hurts short. use price up instead
        if ev.when==T(3):
            print("before cancel", await snap(e), "margin level", e._loan_mgr._lending_strategy.margin_level)
            try:
                await e.cancel_order(st['oid']); print("cancel ok")
            except Exception as ex:
                print("cancel raised", type(ex).__name__, ex)
            oi=await e.get_order_info(st['oid'])
            print("after cancel: is_open", oi.is_open, await snap(e), [o.id==st['oid'] for o in await e.get_open_orders()])
    e.subscribe_to_bar_events(A,on)
    await d.run()
asyncio.run(c06())
