import datetime
from decimal import Decimal as D
from basana.core import bar
from basana.core.pair import Pair
UTC=datetime.timezone.utc
t0=datetime.datetime(2000,1,1,tzinfo=UTC)
errs=[]
class R(bar.RealTimeTradesToBar):
    def on_error(self, e): errs.append(str(e))
r=R(Pair("A","USD"), 60, skip_first_bar=False)
def w(n): return t0+datetime.timedelta(seconds=60*n), t0+datetime.timedelta(seconds=60*(n+1), milliseconds=-1)
r.push_trade(t0+datetime.timedelta(seconds=10), D(100), D(1))
r.push_trade(t0+datetime.timedelta(seconds=59, microseconds=999500), D(101), D(2))   # tail of window 0
r._flush(*w(0))
r.push_trade(t0+datetime.timedelta(seconds=59, microseconds=999700), D(102), D(4))   # tail of window 0 after flush
r.push_trade(t0+datetime.timedelta(seconds=70), D(103), D(8))
r._flush(*w(1))
while (e:=r.pop()): print(e.when, e.bar.datetime, e.bar.open,e.bar.high,e.bar.low,e.bar.close,e.bar.volume)
print(errs)
