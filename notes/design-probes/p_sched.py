import asyncio, datetime, logging
from basana.core import dispatcher, event
UTC=datetime.timezone.utc
def T(s): return datetime.datetime(2000,1,1,tzinfo=UTC)+datetime.timedelta(seconds=s)
async def main(order):
    d=dispatcher.backtesting_dispatcher()
    src=event.FifoQueueEventSource(events=[event.Event(T(0)),event.Event(T(10))])
    ran=[]
    async def h(e): ran.append(('ev',e.when.second))
    d.subscribe(src,h)
    def job(s):
        async def j(): ran.append(('job',s, (d.now()-T(0)).total_seconds()))
        return j
    for s in order: d.schedule(T(s), job(s))
    await d.run()
    return ran
for order in ([20,30,40],[20,40,30],[40,30,20],[30,20,40,5]):
    print(order, asyncio.run(main(order)))
