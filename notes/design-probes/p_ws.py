import asyncio, json, datetime, logging, sys
import aiohttp
sys.path.insert(0,__import__("os").path.dirname(__import__("os").path.abspath(__file__)))
from vloop import VirtualTimeLoop, EPOCH
import basana.core.dt as bdt
from basana.core import dispatcher, websockets as core_ws, event
import basana.core.websockets as cw
from basana.external.binance import exchange as bex

class FakeWS:
    def __init__(s, server, cid):
        s.server=server; s.cid=cid; s.closed=False; s.inbox=asyncio.Queue(); s.sent=[]
    async def send_str(s, data):
        if s.closed: raise ConnectionResetError("closed")
        s.server.on_client_msg(s, json.loads(data))
    async def close(s):
        if not s.closed:
            s.closed=True; s.inbox.put_nowait(aiohttp.WSMessage(aiohttp.WSMsgType.CLOSED,None,None))
    def __aiter__(s): return s
    async def __anext__(s):
        if s.closed and s.inbox.empty(): raise StopAsyncIteration
        m=await s.inbox.get()
        if isinstance(m,Exception): s.closed=True; raise m
        if m.type in (aiohttp.WSMsgType.CLOSE,aiohttp.WSMsgType.CLOSING,aiohttp.WSMsgType.CLOSED):
            s.closed=True; raise StopAsyncIteration
        return m
    # server side helpers
    def push_text(s, obj): s.inbox.put_nowait(aiohttp.WSMessage(aiohttp.WSMsgType.TEXT, obj if isinstance(obj,str) else json.dumps(obj), None))
    def drop(s): s.inbox.put_nowait(aiohttp.WSMessage(aiohttp.WSMsgType.CLOSED,None,None))
class WSCtx:
    def __init__(s, srv): s.srv=srv
    async def __aenter__(s):
        s.ws=s.srv.accept(); return s.ws
    async def __aexit__(s,*a):
        await s.ws.close(); return False
class Resp:
    def __init__(s,status,payload): s.status=status; s.ok=status<400; s.reason="X"; s.headers={"Content-Type":"application/json"}; s._p=payload
    async def json(s): return s._p
    async def __aenter__(s): return s
    async def __aexit__(s,*a): return False
class FakeSession:
    def __init__(s, srv): s.srv=srv
    def ws_connect(s,url,heartbeat=None): return WSCtx(s.srv)
    def _req(m):
        def f(s,url,headers=None,params=None,data=None,timeout=None): return s.srv.rest(m,str(url),params,data)
        return f
    get=_req("GET"); post=_req("POST"); put=_req("PUT"); delete=_req("DELETE")
class Server:
    def __init__(s, loop): s.loop=loop; s.log=[]; s.conns=[]; s.keys=0
    def accept(s):
        ws=FakeWS(s,len(s.conns)); s.conns.append(ws); s.log.append((s.loop.time(),"connect",ws.cid)); return ws
    def on_client_msg(s, ws, msg):
        s.log.append((s.loop.time(),"recv",ws.cid,msg.get("method"),tuple(msg.get("params",[]))))
        ws.push_text({"result":None,"id":msg["id"]})
    def rest(s,m,url,params,data):
        path=url.split("//",1)[1].split("/",1)[1]
        s.log.append((s.loop.time(),"rest",m,path, dict(data._fields[0][0]) if False else None))
        if m=="POST" and path.endswith("userDataStream"):
            s.keys+=1; return Resp(200,{"listenKey":f"key{s.keys}"})
        return Resp(200,{})
loop=VirtualTimeLoop(); asyncio.set_event_loop(loop)
bdt.utc_now=lambda: EPOCH+datetime.timedelta(seconds=loop.time())
class _T:  # time shim
    @staticmethod
    def time(): return 1.6e9+loop.time()
cw.time=_T
async def main():
    srv=Server(loop); sess=FakeSession(srv)
    d=dispatcher.realtime_dispatcher()
    ex=bex.Exchange(d,"k","s",session=sess,config_overrides={"api":{"http":{"base_url":"http://x/"},"websockets":{"base_url":"ws://x/","spot":{"user_data_stream":{"heartbeat":5}}}}})
    got=[]
    async def on_ud(ev): got.append((loop.time(),ev.json.get("e")))
    from basana.core.pair import Pair
    ex.spot_account.subscribe_to_user_data_events(on_ud)
    async def on_tr(ev): got.append((loop.time(),"trade",ev.trade.id))
    ex.subscribe_to_trade_events(Pair("BTC","USDT"), on_tr)
    async def script():
        await asyncio.sleep(2)
        ws=srv.conns[-1]
        ws.push_text({"stream":"btcusdt@trade","data":{"e":"trade","E":1600000000000,"t":1,"T":1600000000000,"p":"1","q":"1","b":1,"a":2}})
        await asyncio.sleep(1)
        ws.push_text({"stream":"key1","data":{"e":"listenKeyExpired","E":1600000000000}})
        await asyncio.sleep(12)
        ws.push_text("garbage{")
        await asyncio.sleep(8)
        d.stop()
    await asyncio.gather(d.run(stop_signals=[]), script())
    for l in srv.log: print(l)
    print(got)
logging.basicConfig(level=logging.ERROR)
loop.run_until_complete(main())
