import asyncio, datetime, random, collections, logging, sys
sys.path.insert(0,__import__("os").path.dirname(__import__("os").path.abspath(__file__)))
from vloop import VirtualTimeLoop, EPOCH
import basana.core.dt as bdt
from basana.core import dispatcher, event
logging.disable(logging.CRITICAL)
from basana.core import helpers as _h
async def _wait_impl(self, timeout, return_when):
    done=[]
    if self._tasks:
        done,_=await asyncio.wait(self._tasks, timeout=timeout, return_when=return_when)
    for task in done:
        if task in self._tasks:
            self._tasks.remove(task); self._done.append(task)
    return len(done)>0
_h.TaskPool._wait_impl=_wait_impl
class Ev(event.Event):
    def __init__(s,when,eid): super().__init__(when); s.eid=eid
def run(seed):
    R=random.Random(seed)
    loop=VirtualTimeLoop(); asyncio.set_event_loop(loop)
    bdt.utc_now=lambda: EPOCH+datetime.timedelta(seconds=loop.time())
    mc=R.choice([1,2,5,50])
    class D(dispatcher.RealtimeDispatcher):
        def on_error(s,err): errs.append(str(err))
    errs=[]; d=D(max_concurrent=mc)
    nsrc=R.randint(1,4); srcs=[event.FifoQueueEventSource() for _ in range(nsrc)]
    trace=[]; inflight=[0]; dur_total=[0.0]
    pushed=collections.defaultdict(list); eid=[0]
    async def h(e):
        inflight[0]+=1; trace.append(("start","ev",e.eid,e.when,bdt.utc_now(),inflight[0]))
        dur=R.choice([0,0,0.05,0.5]); 
        if dur: await asyncio.sleep(dur)
        inflight[0]-=1
    for s in srcs: d.subscribe(s,h)
    jobs=[]
    def mkjob(j,when):
        async def job():
            inflight[0]+=1; trace.append(("start","job",j,when,bdt.utc_now(),inflight[0])); 
            if R.random()<.3: await asyncio.sleep(0.2)
            inflight[0]-=1
        return job
    nidle=R.randint(0,2)
    async def idle():
        trace.append(("idle",inflight[0])); await asyncio.sleep(0.01)
    for _ in range(nidle): d.subscribe_idle(idle if _==0 else (lambda: idle()))
    async def feeder():
        t_end=0
        for _ in range(R.randint(3,25)):
            await asyncio.sleep(R.choice([0,0.001,0.02,0.3,1]))
            if R.random()<.75:
                i=R.randrange(nsrc); off=R.choice([-5,-0.5,0,0,0.3,2]); eid[0]+=1
                e=Ev(bdt.utc_now()+datetime.timedelta(seconds=off),eid[0]); srcs[i].push(e); pushed[i].append(e)
            else:
                off=R.choice([-1,0,0.5,3]); w=bdt.utc_now()+datetime.timedelta(seconds=off); j=len(jobs); jobs.append(w); d.schedule(w,mkjob(j,w))
        await asyncio.sleep(3+ 0.5*eid[0]+0.2*len(jobs)+5)
        d.stop()
    loop.run_until_complete(asyncio.gather(d.run(stop_signals=[]),feeder()))
    v=[]
    for t in trace:
        if t[0]=="start" and t[3]>t[4]: v.append(("early",t))
        if t[0]=="start" and t[5]>mc: v.append(("conc",t,mc))
        if t[0]=="idle" and t[1]!=0: v.append(("idle while busy",t))
    started=collections.Counter(t[2] for t in trace if t[0]=="start" and t[1]=="ev")
    for i,evs in pushed.items():
        prev=None; 
        for e in evs:
            # expected delivered unless older than previously delivered predecessor
            if prev is not None and e.when<prev: exp=0
            else: exp=1; prev=e.when
            if started.get(e.eid,0)!=exp: v.append(("delivery",i,e.eid,started.get(e.eid,0),exp, e.when))
    js=collections.Counter(t[2] for t in trace if t[0]=="start" and t[1]=="job")
    for j in range(len(jobs)):
        if js.get(j,0)!=1: v.append(("job",j,js.get(j,0)))
    loop.close()
    return v,len(trace)
tot=0
for s in range(int(sys.argv[1])):
    v,n=run(s); tot+=n
    if v: print(s,v[:3]); break
print(tot)
