import asyncio, datetime, random, sys, decimal, collections, traceback, logging
from decimal import Decimal as D
src=open(__import__("os").path.join(__import__("os").path.dirname(__import__("os").path.abspath(__file__)),"fz.py")).read().replace("\nmain()\n","\n")
exec(compile(src,"fz.py","exec"))
from fractions import Fraction as F
class Mon3(Mon):
    def init(s,e,sc,d):
        super().init(e,sc,d); s.v=[]; s.loans={}; s.prev_open=set()
    async def call(s,name,coro,info):
        e=s.e
        before={l.id:l for l in await e.get_loans()}
        bb={k:(v.available+v.hold,v.borrowed) for k,v in (await e.get_balances()).items()}
        try:
            r=await super().call(name,coro,info)
        finally:
            after={l.id:l for l in await e.get_loans()}
            for i,l in after.items():
                if i not in before: s.loans[i]=s.d.now()
        if name=="create_loan":
            # C10 oracle
            bal=await e.get_balances(); eq=D(0); used=D(0)
            cond=e._loan_mgr._lending_strategy._default_conditions
            async def px(sym):
                if sym=="USD": return D(1)
                b,a=await e.get_bid_ask(Pair(sym,"USD")); return (b+a)/2
            for sym,b in bal.items():
                net=b.available+b.hold-b.borrowed
                if net>0: eq+=net*await px(sym)
                if b.borrowed>0: used+=b.borrowed*cond.margin_requirement*await px(sym)
            s.stats["c10_granted"]+=1
            if eq<used*(1-D("1e-20")): s.v.append(f"C10 granted with equity {eq} < required {used}")
        if name=="repay":
            s.stats["repaid"]+=1
        return r
    async def check(s,where):
        try: await super().check(where)
        except Viol as v: s.v.append(str(v))
        e=s.e
        cond=getattr(e._loan_mgr._lending_strategy,"_default_conditions",None)
        if cond is None: return
        for l in await e.get_loans(is_open=True):
            t0=s.loans.get(l.id)
            if t0 is None: continue
            el=(s.d.now()-t0).total_seconds()
            ratio=F(int(el*10**6),10**6)/F(int(cond.interest_period.total_seconds()))
            base=F(cond.interest_percentage)/100*F(l.borrowed_amount)*ratio
            if l.borrowed_symbol!="USD":
                b,a=await e.get_bid_ask(Pair(l.borrowed_symbol,"USD")); base*=F((b+a)/2)
            lo=base*(1-F(1,10**12)); hi=base*(1+F(1,10**12))
            mn=F(cond.min_interest)
            p=s.sc["prec"]["USD"]
            def tr(x):
                x=max(x,mn); return D(x.numerator)/D(x.denominator)
            with decimal.localcontext() as c:
                c.prec=60
                lo_t=q(tr(lo),p,decimal.ROUND_DOWN); hi_t=q(tr(hi),p,decimal.ROUND_DOWN)
            got=l.outstanding_interest.get("USD",D(0))
            s.stats["interest_checks"]+=1
            if got>0: s.stats["interest_pos"]+=1
            if not (lo_t<=got<=hi_t): s.v.append(f"C11 interest {got} not in [{lo_t},{hi_t}] el={el} amt={l.borrowed_amount} {l.borrowed_symbol}")
            if any(k!="USD" for k in l.outstanding_interest): s.v.append("C11 interest symbol")
def main3():
    n=int(sys.argv[1]); agg=collections.Counter(); viol=collections.Counter()
    logging.disable(logging.CRITICAL)
    for seed in range(n):
        sc=scenario(seed); 
        if not sc["lend"]: continue
        mon=Mon3()
        try: asyncio.run(run(sc,mon))
        except Exception as ex: mon.v.append("EXC "+repr(ex)[:80]); traceback.print_exc()
        for m in mon.v[:1]:
            viol[m[:26]]+=1
            if viol[m[:26]]<=2: print("seed",seed,m[:300])
        agg.update(mon.stats)
    print({k:v for k,v in agg.items() if k in("c10_granted","repaid","interest_checks","interest_pos","checks")}); print(viol)
main3()
