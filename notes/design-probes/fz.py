import asyncio, datetime, random, sys, decimal, collections, traceback
from decimal import Decimal as D
from basana.core import dispatcher, event, bar, helpers as ch
from basana.core.pair import Pair, PairInfo
from basana.core.enums import OrderOperation as Op
from basana.backtesting import exchange, liquidity, lending, fees, errors
UTC=datetime.timezone.utc
def T(s): return datetime.datetime(2000,1,1,tzinfo=UTC)+datetime.timedelta(hours=s)
def q(x,p,r=decimal.ROUND_HALF_EVEN): return D(x).quantize(D(1).scaleb(-p), rounding=r)
class Viol(Exception): pass
def scenario(seed):
    R=random.Random(seed)
    prec={"BTC":R.choice([0,2,4,8]),"ETH":R.choice([0,1,3,8]),"USD":R.choice([0,2,2,5])}
    pairs=[Pair("BTC","USD")]+([Pair("ETH","USD")] if R.random()<.6 else [])
    nb=R.randint(5,40)
    bars={}
    for p in pairs:
        px=D(R.choice([3,50,1000,20000])); lst=[]
        t=0
        for i in range(nb):
            t+=R.choice([1,1,1,2])
            o=q(px*D(R.uniform(.9,1.1)),prec["USD"]); o=max(o,D(1).scaleb(-prec["USD"]))
            c=q(o*D(R.uniform(.8,1.25)),prec["USD"]); c=max(c,D(1).scaleb(-prec["USD"]))
            h=q(max(o,c)*D(R.uniform(1,1.1)),prec["USD"]); l=q(min(o,c)*D(R.uniform(.9,1)),prec["USD"]); l=max(l,D(1).scaleb(-prec["USD"])); l=min(l,o,c); h=max(h,o,c)
            v=D(R.choice([0,1,3,10,100]))*D(R.choice(["1","0.37","2.5"]))
            lst.append((t,o,h,l,c,v)); px=c
        bars[p]=lst
    fee=R.choice([None,("p",D(R.choice(["0","0.1","0.25","1.5"])),D(R.choice(["0","0","0.01","5"])))])
    liq=R.choice([None,(D(R.choice([1,10,25,100])),D(R.choice([0,5,10,50])))])
    lend=R.random()<.5
    init={"USD":q(R.choice([0,100,10000,1000000]),prec["USD"]),"BTC":q(R.choice([0,0,1,50]),prec["BTC"]),"ETH":q(R.choice([0,0,10]),prec["ETH"])}
    return dict(seed=seed,prec=prec,pairs=pairs,bars=bars,fee=fee,liq=liq,lend=lend,init=init)
async def run(sc, mon):
    R=random.Random(sc["seed"]*7+1)
    d=dispatcher.backtesting_dispatcher()
    kw={}
    if sc["fee"]: kw["fee_strategy"]=fees.Percentage(sc["fee"][1],sc["fee"][2])
    kw["liquidity_strategy_factory"]=(lambda: liquidity.VolumeShareImpact(*sc["liq"])) if sc["liq"] else liquidity.InfiniteLiquidity
    if sc["lend"]:
        kw["lending_strategy"]=lending.MarginLoans("USD", default_conditions=lending.MarginLoanConditions(interest_symbol="USD",interest_percentage=D(7),interest_period=datetime.timedelta(days=30),min_interest=D(R.choice(["0","0.01"])) if sc["prec"]["USD"]>=2 else D(0),margin_requirement=D(R.choice(["0.1","0.5","1"]))))
    e=exchange.Exchange(d, dict(sc["init"]), **kw)
    for s,p in sc["prec"].items(): e.set_symbol_precision(s,p)
    for p in sc["pairs"]:
        s=event.FifoQueueEventSource()
        for (t,o,h,l,c,v) in sc["bars"][p]:
            s.push(bar.BarEvent(T(t), bar.Bar(T(t-1),p,o,h,l,c,v)))
        e.add_bar_source(s)
    mon.init(e,sc,d)
    async def strat(ev):
        p=ev.bar.pair; pi=PairInfo(sc["prec"][p.base_symbol],sc["prec"][p.quote_symbol])
        await mon.check("bar")
        for _ in range(R.choice([0,1,1,2,3])):
            a=R.random()
            try:
                if a<.6:
                    op=R.choice([Op.BUY,Op.SELL]); amt=q(D(R.choice([1,2,5,10,40]))*D(R.choice(["1","0.1","0.013"])),pi.base_precision)
                    if amt<=0: amt=D(1).scaleb(-pi.base_precision)
                    ref=ev.bar.close; 
                    def px(): return max(q(ref*D(R.choice(["0.9","0.97","1","1.03","1.1"])),pi.quote_precision), D(1).scaleb(-pi.quote_precision))
                    ab=sc["lend"] and R.random()<.4; ar=sc["lend"] and R.random()<.4
                    k=R.choice("MLLSX")
                    if k=="M": c=e.create_market_order(op,p,amt,auto_borrow=ab,auto_repay=ar)
                    elif k=="L": c=e.create_limit_order(op,p,amt,px(),auto_borrow=ab,auto_repay=ar)
                    elif k=="S": c=e.create_stop_order(op,p,amt,px(),auto_borrow=ab,auto_repay=ar)
                    else: c=e.create_stop_limit_order(op,p,amt,px(),px(),auto_borrow=ab,auto_repay=ar)
                    await mon.call("create_order", c, dict(k=k,op=op,amt=amt))
                elif a<.75:
                    ids=[o.id for o in await e.get_orders()]
                    if ids: await mon.call("cancel", e.cancel_order(R.choice(ids)), {})
                elif a<.88:
                    sym=R.choice(list(sc["prec"])); await mon.call("create_loan", e.create_loan(sym, q(D(R.choice([1,3,100,5000]))*D(R.choice(["1","0.01"])),sc["prec"][sym]) or D(1)), {})
                else:
                    ls=await e.get_loans()
                    if ls: await mon.call("repay", e.repay_loan(R.choice(ls).id), {})
            except errors.Error as ex:
                mon.rej[type(ex).__name__+":"+str(ex)[:25]]+=1
        await mon.check("after-actions")
    for p in sc["pairs"]: e.subscribe_to_bar_events(p, strat)
    e.subscribe_to_order_events(mon.on_order_event)
    await d.run()
    await mon.check("end")
class Mon:
    def __init__(s): s.rej=collections.Counter(); s.stats=collections.Counter()
    def init(s,e,sc,d):
        s.e=e; s.sc=sc; s.d=d; s.evs=collections.defaultdict(list)
    async def on_order_event(s,ev):
        s.evs[ev.order.id].append((ev.when,ev.order))
        await s.check("order-event")
    async def snap(s):
        b=await s.e.get_balances()
        return {k:(v.available,v.hold,v.borrowed) for k,v in b.items() if v.available or v.hold or v.borrowed}, {o.id:(o.is_open,o.amount_filled,o.quote_amount_filled,tuple(sorted(o.fees.items()))) for o in await s.e.get_orders()}, {l.id:(l.is_open,l.borrowed_amount) for l in await s.e.get_loans()}
    async def call(s,name,coro,info):
        before=await s.snap()
        tb={k:v.total for k,v in (await s.e.get_balances()).items()}
        try:
            r=await coro
        except errors.Error as ex:
            after=await s.snap()
            if before!=after:
                raise Viol(f"C07 {name} raised {ex!r} but state changed: {before} -> {after}")
            s.stats["rejected_"+name]+=1
            raise
        ta={k:v.total for k,v in (await s.e.get_balances()).items()}
        if name!="repay":
            for k in set(tb)|set(ta):
                if tb.get(k,0)!=ta.get(k,0): raise Viol(f"C01 {name} changed total {k} {tb.get(k)} -> {ta.get(k)}")
        s.stats["ok_"+name]+=1
        await s.check("after-"+name)
        return r
    async def check(s,where):
        e=s.e; sc=s.sc
        bal=await e.get_balances(); orders=await e.get_orders(); loans=await e.get_loans()
        s.stats["checks"]+=1
        # C02
        ob=collections.Counter()
        for l in loans:
            if l.is_open: ob[l.borrowed_symbol]+=l.borrowed_amount
        for sym,b in bal.items():
            if b.available<0 or b.hold<0 or b.borrowed<0: raise Viol(f"C02 negative {sym} {b} at {where}")
            if b.borrowed!=ob.get(sym,0): raise Viol(f"C02 borrowed {sym} {b.borrowed} != loans {ob.get(sym,0)}")
            # C08 grid
            p=sc["prec"][sym]
            for nm,v in (("avail",b.available),("hold",b.hold),("borrowed",b.borrowed)):
                if v!=q(v,p,decimal.ROUND_DOWN): raise Viol(f"C08 dust {sym} {nm} {v} prec {p} at {where}")
        # C01
        exp=collections.defaultdict(D); 
        for k,v in sc["init"].items(): exp[k]+=v
        pairs={}
        for o in orders:
            pass
        # need pair of order: not in OrderInfo -> use private
        for o in e._get_all_orders():
            sg=1 if o.operation==Op.BUY else -1
            exp[o.pair.base_symbol]+=sg*o.amount_filled; exp[o.pair.quote_symbol]-=sg*o.quote_amount_filled
            for k,v in o.get_order_info().fees.items(): exp[k]-=v
            # C09
            if sc["fee"] and o.quote_amount_filled>0:
                f=max(o.quote_amount_filled*sc["fee"][1]/100, sc["fee"][2]); f=q(f,sc["prec"][o.pair.quote_symbol],decimal.ROUND_UP)
                got=o.get_order_info().fees
                if (got.get(o.pair.quote_symbol,D(0))!=f) or any(k!=o.pair.quote_symbol for k in got): raise Viol(f"C09 fee {got} expected {f} quote {o.quote_amount_filled} fills {len(o.fills)}")
                if len(o.fills)>1: s.stats["multi_fill_fee_orders"]+=1
            elif o.get_order_info().fees: raise Viol(f"C09 fee without trade/percentage {o.get_order_info().fees}")
            if o.amount_filled>o.amount: raise Viol("C05 overfill")
        for l in loans:
            for k,v in l.paid_interest.items(): exp[k]-=v
        for k in set(exp)|set(bal):
            t=bal[k].total if k in bal else D(0)
            if t!=exp[k]: raise Viol(f"C01 total {k} {t} != expected {exp[k]} at {where}")
        # C06 weak
        if not any(o.is_open for o in orders):
            for sym,b in bal.items():
                if b.hold!=0: raise Viol(f"C06 hold {sym} {b.hold} with no open orders at {where}")
        oo={o.id for o in await e.get_open_orders()}
        if oo!={o.id for o in orders if o.is_open}: raise Viol("C05 open list mismatch")
def main():
    n=int(sys.argv[1]); start=int(sys.argv[2]) if len(sys.argv)>2 else 0
    agg=collections.Counter(); rej=collections.Counter(); viol=collections.Counter()
    import logging; logging.disable(logging.CRITICAL)
    for seed in range(start,start+n):
        sc=scenario(seed); mon=Mon()
        try:
            asyncio.run(run(sc,mon))
        except Viol as v:
            viol[str(v)[:60]]+=1
            if viol[str(v)[:60]]<=1: print("seed",seed,v)
        except Exception as ex:
            viol["EXC "+repr(ex)[:80]]+=1
            if viol["EXC "+repr(ex)[:80]]<=1: print("seed",seed); traceback.print_exc()
        agg.update(mon.stats); rej.update(mon.rej)
    print(agg); print(rej.most_common(20)); print(viol)
main()
