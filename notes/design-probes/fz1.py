import sys, logging, asyncio
sys.argv=["fz.py","0"]
import importlib.util
src=open("fz.py").read().replace("\nmain()\n","\n")
exec(compile(src,"fz.py","exec"))
logging.basicConfig(level=logging.DEBUG, format="%(message)s")
sc=scenario(241); mon=Mon()
try: asyncio.run(run(sc,mon))
except Viol as v: print("VIOL",v)
