import asyncio, datetime, logging
from basana.core import dispatcher, event, dt
async def main():
    d=dispatcher.realtime_dispatcher(max_concurrent=1)
    now=dt.utc_now()
    src=event.FifoQueueEventSource(events=[event.Event(now-datetime.timedelta(seconds=5+i)) for i in range(3,0,-1)])
    ran=[]
    async def h(e):
        await asyncio.sleep(0.05); ran.append('ev')
    d.subscribe(src,h)
    async def j():
        await asyncio.sleep(0.05); ran.append('job')
    for i in range(3): d.schedule(now-datetime.timedelta(seconds=1), j)
    async def stopper():
        await asyncio.sleep(1); d.stop()
    try:
        await asyncio.gather(d.run(), stopper())
        print("returned", ran)
    except BaseException as e:
        print("raised", type(e), e, ran)
asyncio.run(main())

# logging factory
async def main2():
    d=dispatcher.backtesting_dispatcher()
    class P(event.Producer):
        async def main(self): raise RuntimeError("boom")
    src=event.FifoQueueEventSource(producer=P())
    async def h(e): pass
    d.subscribe(src,h)
    f0=logging.getLogRecordFactory()
    try:
        await d.run()
    except RuntimeError as e: print("run raised", e)
    print("factory restored:", logging.getLogRecordFactory() is f0)
    try:
        logging.getLogger("x").warning("hello")
    except Exception as e: print("logging raised:", type(e), e)
asyncio.run(main2())
