import asyncio, datetime, sys
from decimal import Decimal as D
from basana.core import dispatcher, event, bar
from basana.core.pair import Pair
from basana.core.enums import OrderOperation as Op
from basana.backtesting import exchange, liquidity
UTC=datetime.timezone.utc
def T(s): return datetime.datetime(2000,1,1,tzinfo=UTC)+datetime.timedelta(days=s)
def src(pair, n, base):
    s=event.FifoQueueEventSource()
    for i in range(n):
        p=D(base+i*10)
        s.push(bar.BarEvent(T(i+1), bar.Bar(T(i), pair, p,p+5,p-5,p+1, D(1000))))
    return s
async def run(mc, order):
    d=dispatcher.backtesting_dispatcher(max_concurrent=mc)
    e=exchange.Exchange(d, {"USD":D(100000)}, liquidity_strategy_factory=liquidity.InfiniteLiquidity)
    A,B,C=Pair("A","USD"),Pair("B","USD"),Pair("C","USD")
    sub=[]
    async def onA(ev):
        if ev.when==T(2):
            o=await e.create_market_order(Op.BUY, C, D(1)); sub.append((o.id, d.now()))
    steps={"srcA":lambda: e.add_bar_source(src(A,4,100)),"subA":lambda: e.subscribe_to_bar_events(A,onA),
           "srcB":lambda: e.add_bar_source(src(B,4,200)),"srcC":lambda: e.add_bar_source(src(C,4,300))}
    for k in order: steps[k]()
    await d.run()
    out=[]
    for oid,t in sub:
        o=[x for x in e._get_all_orders() if x.id==oid][0]
        out.append((t.day, [(f.when.day, {k:str(v) for k,v in f.balance_updates.items()}) for f in o.fills]))
    return out, {k:str(v.available) for k,v in (await e.get_balances()).items()}
for order in (["srcA","srcB","srcC","subA"],["srcA","subA","srcB","srcC"]):
    for mc in (1,2,3,50):
        print(order, mc, asyncio.run(run(mc, order)))
