#!/bin/bash
# Run once in /verif after a fresh restore, offline. Installs icontract from the local wheelhouse into the
# git-ignored .deps directory, byte-compiles the framework and smoke-tests the virtual-time loop.
set -e
here="$(cd "$(dirname "${BASH_SOURCE[0]}")" && pwd)"
cd "$here"
export PIP_NO_INDEX=1 PIP_DISABLE_PIP_VERSION_CHECK=1
export PYTHONPATH="$here:$here/.deps"
/venv/bin/python -c "from vf import common; common.ensure_deps(); import icontract; print('icontract', icontract.__version__)"
/venv/bin/python -m compileall -q vf tools >/dev/null
/venv/bin/python - <<'PY'
import asyncio
from vf import common, vclock
print("basana from", common.assert_repo_tree())
with vclock.virtual_time() as loop:
    async def main():
        await asyncio.sleep(3600)
        return loop.time()
    t = loop.run_until_complete(main())
    assert 3600 <= t < 3600.001, t
print("virtual loop ok")
PY
mkdir -p evidence replays
